"""C01 -- TT arithmetic equals dense linear algebra."""
import itertools

import numpy as np

from symtt.core import scenario
from symtt import dense as D
from .common import free_policy, all_shapes, pick, is_edge, mk_cores, meta_ok

META = {
    'explanation': 'Every value-level operation of scikit_tt.tensor_train.TT (full, matricize, element, +, -, scalar *, @, '
                   'transpose/conj/copy, constructors, 1-/2-norm, residual_error) is executed on cores whose entries are free '
                   'real/complex symbols and compared, entry by entry, with an index-loop dense oracle; the solver decides the '
                   'polynomial identity for all entry values at each shape. np.isclose / np.allclose in the code are modelled as exact comparisons with their literal tolerances.',
    'bounds': {'quick': 'orders 1-3, mode sizes {1,2}, inner ranks {1,2}, real/complex/mixed; deterministic subset of the grid with all edge shapes',
               'thorough': 'orders 1-3 complete grid over mode sizes {1,2} and ranks {1,2}, plus order 4 / size 3 / rank 3 samples'},
    'outside': ['floating-point rounding', 'shapes beyond the grid', 'norm(p=2): Frobenius norm invariance under isometries is the '
                'textbook lemma, discharged as a certificate identity, composition with C03'],
    'assumptions': ['norm(p=1): entries non-negative (documented)'],
    'tv_per_scenario': {'quick': 1, 'thorough': 2},
}


def _grid(tier, n_quick, n_thorough=None, **kw):
    shapes = all_shapes(**kw)
    if tier == 'quick':
        return pick(shapes, n_quick, is_edge)
    extra = []
    if not kw.get('vector'):
        extra = [{'rows': [2, 3, 2, 1], 'cols': [1, 2, 1, 2], 'ranks': [1, 2, 3, 2, 1]},
                 {'rows': [3, 2], 'cols': [2, 3], 'ranks': [1, 3, 1]}]
    else:
        extra = [{'rows': [2, 3, 2, 2], 'cols': [1, 1, 1, 1], 'ranks': [1, 2, 3, 2, 1]}]
    return (shapes if n_thorough is None else pick(shapes, n_thorough, is_edge)) + extra


def _with(grid, **opts):
    out = []
    keys = list(opts)
    for s in grid:
        for combo in itertools.product(*[opts[k] for k in keys]):
            p = {'shape': s}
            p.update(dict(zip(keys, combo)))
            out.append(p)
    return out


# ------------------------------------------------------------------ representation
@scenario('C01', 'repr', lambda tier: _with(_grid(tier, 24, 120), cplx=[False, True, 'last']))
def repr_ops(ctx, shape, cplx):
    """full / matricize / element / copy / conj / transpose / scalar multiples"""
    TT = ctx.R.TT
    d = len(shape['rows'])
    t = TT(mk_cores(ctx, 'a', shape, cplx))
    ref = D.tt_full(ctx, mk_cores(ctx, 'a', shape, cplx))
    ctx.eq('full', t.full(), ref)
    ctx.eq('matricize', t.matricize().reshape(int(np.prod(shape['rows'])), int(np.prod(shape['cols']))), D.as_matrix(ref, d))
    # element: every index tuple
    els = ctx.zeros(ref.shape)
    for idx in np.ndindex(*ref.shape):
        D._set(els, idx, t.element([int(i) for i in idx]))
    ctx.eq('element (all index tuples)', els, ref)
    c = t.copy()
    ctx.eq('copy', c.full(), ref)
    ctx.check('copy: cores are distinct buffers', not any(np.shares_memory(c.cores[i], t.cores[i]) for i in range(d)))
    meta_ok(ctx, 'copy', c)
    ctx.eq('conj', t.conj().full(), D.elementwise(ctx, ctx.conj, ref))
    # transpose over every subset of cores
    subsets = [list(s) for k in range(d + 1) for s in itertools.combinations(range(d), k)]
    for sub in subsets:
        for cj in (False, True):
            tr = t.transpose(cores=sub if len(sub) < d else None, conjugate=cj)
            # the selected cores are (conjugate-)transposed; for a proper subset this is defined on the cores
            # (conjugating part of a factorisation is not a function of the dense tensor alone)
            cs = mk_cores(ctx, 'a', shape, cplx)
            for i in sub:
                ci = cs[i].transpose(0, 2, 1, 3)
                cs[i] = D.elementwise(ctx, ctx.conj, ci) if cj else ci
            exp = D.tt_full(ctx, cs)
            if len(sub) == d:
                perm = [d + i for i in range(d)] + list(range(d))
                exp2 = ref.transpose(perm)
                if cj:
                    exp2 = D.elementwise(ctx, ctx.conj, exp2)
                ctx.eq('(conjugate) transpose of all cores == dense (conjugate) transpose, conjugate=%s' % cj, tr.full(), exp2)
            ctx.eq('transpose cores=%s conjugate=%s' % (sub, cj), tr.full(), exp)
            if sub == subsets[-1]:
                meta_ok(ctx, 'transpose', tr)
    s = ctx.scalar('c', cplx=True)
    ctx.eq('t * scalar', (t * s).full(), D.scale(ctx, s, ref))
    ctx.eq('scalar * t', (s * t).full(), D.scale(ctx, s, ref))
    ctx.eq('operand unchanged after all of the above', t.full(), ref)


# ------------------------------------------------------------------------ add / sub
def _add_grid(tier):
    base = _grid(tier, 16, 80)
    out = []
    for s in base:
        d = len(s['rows'])
        alts = [s['ranks']]
        other = [1] + [3 - r for r in s['ranks'][1:-1]] + [1]
        if other != s['ranks']:
            alts.append(other)
        for rb in alts:
            for ca, cb in ((False, False), (True, False), (False, True), (True, True), ('last', False), (False, 'last'), ('first', 'last'),
                           ('inner', False)):
                if tier == 'quick' and (ca, cb) == (True, True) and not is_edge(s):
                    continue
                if d == 1 and isinstance(ca, str) or isinstance(cb, str) and d == 1:
                    continue
                out.append({'shape': s, 'ranks_b': rb, 'cplx_a': ca, 'cplx_b': cb})
    return out


@scenario('C01', 'add_sub', _add_grid)
def add_sub(ctx, shape, ranks_b, cplx_a, cplx_b):
    """a + b, a - b for equal and different ranks, mixed real/complex operands"""
    TT = ctx.R.TT
    sb = dict(shape, ranks=ranks_b)
    a = TT(mk_cores(ctx, 'a', shape, cplx_a))
    b = TT(mk_cores(ctx, 'b', sb, cplx_b))
    fa = D.tt_full(ctx, mk_cores(ctx, 'a', shape, cplx_a))
    fb = D.tt_full(ctx, mk_cores(ctx, 'b', sb, cplx_b))
    s = a + b
    ctx.eq('a + b', s.full(), D.add(ctx, fa, fb))
    meta_ok(ctx, 'a + b', s)
    m = a - b
    ctx.eq('a - b', m.full(), D.sub(ctx, fa, fb))
    meta_ok(ctx, 'a - b', m)
    ctx.eq('operands unchanged', a.full(), fa)
    ctx.eq('operands unchanged (b)', b.full(), fb)


# --------------------------------------------------------------------------- matmul
def _mm_grid(tier):
    out = []
    shapes = all_shapes(orders=(1, 2, 3))
    sel = pick(shapes, 14 if tier == 'quick' else 90, is_edge)
    for i, s in enumerate(sel):
        d = len(s['rows'])
        # right operand: rows = cols of left; its cols alternate between vector and operator shapes
        for cols_b in ([1] * d, [2 if (j + i) % 2 else 1 for j in range(d)]):
            rb = [1] + [1 + (j + i) % 2 for j in range(d - 1)] + [1]
            for ca, cb in ((False, False), (True, False), (True, True), ('last', False), (False, 'first')):
                if tier == 'quick' and ca and cb and not is_edge(s):
                    continue
                if d == 1 and (isinstance(ca, str) or isinstance(cb, str)):
                    continue
                out.append({'shape': s, 'cols_b': cols_b, 'ranks_b': rb, 'cplx_a': ca, 'cplx_b': cb})
    # outer products |x><y| and products with contracted modes of size 1, both factors of rank 2 at every bond
    for (rows, cols, cb_) in (([2, 2], [1, 1], [2, 2]), ([2, 2, 2], [1, 1, 1], [2, 1, 2]), ([2, 1, 2], [1, 2, 1], [2, 2, 1]), ([1, 2], [1, 1], [2, 2])):
        d = len(rows)
        for ca, cb in ((False, False), (True, True)):
            out.append({'shape': {'rows': rows, 'cols': cols, 'ranks': [1] + [2] * (d - 1) + [1]}, 'cols_b': cb_, 'ranks_b': [1] + [2] * (d - 1) + [1], 'cplx_a': ca, 'cplx_b': cb})
    return out


@scenario('C01', 'matmul', _mm_grid)
def matmul(ctx, shape, cols_b, ranks_b, cplx_a, cplx_b):
    """a @ b and a.dot(b), including the all-modes-1 -> scalar case"""
    TT = ctx.R.TT
    d = len(shape['rows'])
    sb = {'rows': shape['cols'], 'cols': cols_b, 'ranks': ranks_b}
    a = TT(mk_cores(ctx, 'a', shape, cplx_a))
    b = TT(mk_cores(ctx, 'b', sb, cplx_b))
    A = D.as_matrix(D.tt_full(ctx, mk_cores(ctx, 'a', shape, cplx_a)), d)
    B = D.as_matrix(D.tt_full(ctx, mk_cores(ctx, 'b', sb, cplx_b)), d)
    exp = D.matmul(ctx, A, B)
    p = a @ b
    if isinstance(p, TT):
        ctx.eq('a @ b', D.as_matrix(p.full(), d), exp)
        meta_ok(ctx, 'a @ b', p)
        ctx.check('a @ b: dims', p.row_dims == shape['rows'] and p.col_dims == cols_b)
        ctx.eq('a.dot(b)', D.as_matrix(a.dot(b).full(), d), exp)
    else:
        ctx.check('scalar result only when all modes are 1', int(np.prod(shape['rows'])) == 1 and int(np.prod(cols_b)) == 1)
        ctx.eq('a @ b (scalar)', p, exp)
    ctx.eq('operands unchanged', D.as_matrix(a.full(), d), A)


# --------------------------------------------------------------------- constructors
def _ctor_grid(tier):
    shapes = all_shapes(orders=(1, 2, 3), dims=(1, 2, 3) if tier != 'quick' else (1, 2), ranks=(1, 2, 3) if tier != 'quick' else (1, 2))
    return [{'shape': s} for s in pick(shapes, 20 if tier == 'quick' else 150, is_edge)]


@scenario('C01', 'constructors', _ctor_grid)
def constructors(ctx, shape):
    """zeros / ones / eye / unit / rand / uniform"""
    tt = ctx.R.tt
    rows, cols, ranks = shape['rows'], shape['cols'], shape['ranks']
    d = len(rows)
    z = tt.zeros(rows, cols, ranks)
    ctx.eq('zeros', z.full(), ctx.zeros(tuple(rows) + tuple(cols)))
    meta_ok(ctx, 'zeros', z)
    o = tt.ones(rows, cols, ranks)
    allone = D.elementwise(ctx, lambda x: x + ctx.const_frac(int(np.prod(ranks))), ctx.zeros(tuple(rows) + tuple(cols)))
    ctx.eq('ones (value = product of ranks)', o.full(), allone)
    if d > 1:
        o2 = tt.ones(rows, cols, ranks[1])
        ctx.check('ones(int rank): ranks', o2.ranks == [1] + [ranks[1]] * (d - 1) + [1])
    e = tt.eye(rows)
    ctx.eq('eye', D.as_matrix(e.full(), d), D.eye(ctx, int(np.prod(rows))))
    for inds in itertools.product(*[range(m) for m in rows]):
        u = tt.unit(rows, list(inds))
        exp = ctx.zeros(tuple(rows) + (1,) * d)
        D._set(exp, tuple(inds) + (0,) * d, ctx.const_frac(1))
        ctx.eq('unit %s' % (list(inds),), u.full(), exp)
    # rand: fresh uniforms in [0,1); the value is the contraction of whatever was drawn
    if ctx.sym:
        from symtt import state, lapack
        free_policy(ctx)
        r = tt.rand(rows, cols, ranks)
        draws = [c.a if hasattr(c, 'a') else c.r for c in state.S.stub_log if c.kind == 'rand']
        ctx.check('rand: one draw per core with the core shape',
                  [tuple(x.shape) for x in draws] == [(ranks[i], rows[i], cols[i], ranks[i + 1]) for i in range(d)])
        ctx.eq('rand', r.full(), D.tt_full(ctx, draws), extra_assumptions=list(state.S.axioms))
        meta_ok(ctx, 'rand', r)
    else:
        r = tt.rand(rows, cols, ranks)
        ctx.check('rand: entries in [0,1)', all(float(c.min()) >= 0 and float(c.max()) < 1 for c in r.cores))
        meta_ok(ctx, 'rand', r)
    # uniform: all entries equal, 2-norm = requested norm
    if all(x == 1 for x in cols):
        nrm = ctx.scalar('nrm', lo=(0,), hi=4)
        if ctx.sym:
            from symtt import state
            state.reset()
        u = tt.uniform(rows, ranks, nrm)
        f = u.full()
        flat = f.reshape(-1)
        n = flat.shape[0]
        first = D.elementwise(ctx, lambda x: flat[0] if not hasattr(flat, 'plain') else flat.plain()[0], f)
        ax = []
        if ctx.sym:
            from symtt import state
            ax = list(state.S.axioms)
        ctx.eq('uniform: all entries equal', f, first, extra_assumptions=ax)
        ctx.eq('uniform: squared 2-norm = norm^2', D.frob2(ctx, f), nrm * nrm, extra_assumptions=ax, tol=1e-7)
        ctx.check('uniform: entries positive', flat[0] > 0 if not ctx.sym else _pos(ctx, flat, ax))


def _pos(ctx, flat, ax):
    import z3
    from symtt import solve
    from symtt.scalar import zterm
    v = solve.check_sat(z3.Not(zterm(flat.plain()[0].re) > 0), ctx._assum(ax), ctx.timeout_ms)
    return v.status == 'unsat'


# ---------------------------------------------------------------------------- norms
@scenario('C01', 'norm2', lambda tier: _with(_grid(tier, 20, 120), cplx=[False, True]))
def norm2(ctx, shape, cplx):
    """norm(p=2): the number returned is ||first core|| of the right-orthonormalised copy; every SVD argument and the
    final norm argument equal the dense spec (cut-point argument identities); composed with C03 and the isometry lemma"""
    TT = ctx.R.TT
    d = len(shape['rows'])
    t = TT(mk_cores(ctx, 'a', shape, cplx))
    cores = mk_cores(ctx, 'a', shape, cplx)
    ref = D.tt_full(ctx, cores)
    if not ctx.sym:
        ctx.eq('norm(p=2) == Frobenius norm of the dense tensor', t.norm(p=2) ** 2, D.frob2(ctx, ref), tol=1e-7)
        ctx.eq('operand unchanged', t.full(), ref)
        meta_ok(ctx, 'norm2 operand', t)
        return
    from symtt import state, lapack
    free_policy(ctx)
    val = t.norm(p=2)
    log = list(state.S.stub_log)
    svds = [c for c in log if c.kind == 'svd']
    norms = [c for c in log if c.kind == 'norm']
    with ctx.group('norm(p=2) == Frobenius norm of the dense tensor'):
        ok = ctx.check('norm2: %d SVD calls, one norm call' % (d - 1), len(svds) == d - 1 and len(norms) == 1 and log[-1].kind == 'norm')
        if ok:
            mn = [shape['rows'][i] * shape['cols'][i] for i in range(d)]
            rk = shape['ranks']
            cur = cores[d - 1].reshape(rk[d - 1], mn[d - 1] * rk[d])
            for j, k in enumerate(range(d - 1, 0, -1)):
                call = svds[j]
                ctx.eq('norm2: SVD #%d argument == right unfolding of core %d times carried factor' % (j, k), call.a, cur)
                US = D.matmul(ctx, call.U, _diag(ctx, call.s))
                left = cores[k - 1].reshape(rk[k - 1] * mn[k - 1], rk[k])
                cur = D.matmul(ctx, left, US).reshape(rk[k - 1], mn[k - 1] * call.U.shape[1])
            ctx.eq('norm2: argument of the final norm == first core times carried factor', norms[0].v.reshape(-1), cur.reshape(-1))
            ctx.check('norm2: the returned value is the result of that norm call', val is norms[0].r)
    ctx.eq('operand unchanged', t.full(), ref)
    meta_ok(ctx, 'norm2 operand', t)
    # isometry lemma (certificate): ||W V||^2 - ||W||^2 == sum_ikl W_ik conj(W_il) ((V V^H)_kl - delta_kl)
    p, k, n = 2, 2, 3
    W = ctx.input('W', (p, k), cplx)
    V = ctx.input('V', (k, n), cplx)
    G = D.matmul(ctx, V, D.conj_t(ctx, V))
    lhs = D.frob2(ctx, D.matmul(ctx, W, V)) - D.frob2(ctx, W)
    rhs = ctx.const_frac(0)
    for i in range(p):
        for a in range(k):
            for b in range(k):
                g = D._get(G, (a, b)) - (ctx.const_frac(1) if a == b else ctx.const_frac(0))
                rhs = rhs + D._get(W, (i, a)) * ctx.conj(D._get(W, (i, b))) * g
    with ctx.group('norm(p=2) == Frobenius norm of the dense tensor'):
        ctx.eq('isometry lemma certificate (2x2 . 2x3)', lhs, rhs, form='III')


def _vecof(ctx, xs):
    out = ctx.zeros((len(xs),))
    for i, x in enumerate(xs):
        D._set(out, (i,), x)
    return out


def _diag(ctx, s):
    k = s.shape[0]
    out = ctx.zeros((k, k))
    for i in range(k):
        D._set(out, (i, i), D._get(s, (i,)))
    return out


@scenario('C01', 'norm1', lambda tier: [{'shape': s} for s in _grid(tier, 20, 120)])
def norm1(ctx, shape):
    """norm(p=1): maximum column sum (operators) / sum of entries (vectors) for non-negative entries"""
    TT = ctx.R.TT
    d = len(shape['rows'])
    t = TT(mk_cores(ctx, 'a', shape, False, lo=0))
    ref = D.as_matrix(D.tt_full(ctx, mk_cores(ctx, 'a', shape, False, lo=0)), d)
    if all(m == 1 for m in shape['rows']):
        ref = ref.T       # documented: a TT with row dimensions 1 is treated as a (column) vector
    sums = [D.sum_((D._get(ref, (i, j)) for i in range(ref.shape[0])), ctx) for j in range(ref.shape[1])]
    if ctx.sym:
        from symtt import state, lapack
        free_policy(ctx)
        val = t.norm(p=1)
        mx = [c for c in state.S.stub_log if c.kind == 'max']
        with ctx.group('norm1 == max column sum'):
            if ctx.check('norm1: one max over the column sums', len(mx) == 1 and mx[0].axis is None):
                ctx.eq('norm1: argument of max == vector of column sums', mx[0].a.reshape(-1), _vecof(ctx, sums))
                ctx.check('norm1: the returned value is the result of that max', val is mx[0].r)
    else:
        val = t.norm(p=1)
        ctx.eq('norm1 == max column sum', val, max(float(np.real(s)) for s in sums))
    ctx.eq('operand unchanged', D.as_matrix(t.full(), d), ref if not all(m == 1 for m in shape['rows']) else ref.T)


# ------------------------------------------------------------------- residual error
def _resid_cores(ctx, Ac, xc, bc):
    """index-loop block cores (r, m, r') of the TT  A x - b : first [Ax, -b], middle diag(Ax, b), last [Ax; b]"""
    d = len(Ac)
    out = []
    for i in range(d):
        r, m, n, r2 = Ac[i].shape
        s_, _, _, s2 = xc[i].shape
        q, _, _, q2 = bc[i].shape
        ax = ctx.zeros((r * s_, m, r2 * s2))
        for a in range(r):
            for b_ in range(s_):
                for mm in range(m):
                    for a2 in range(r2):
                        for b2 in range(s2):
                            D._set(ax, (a * s_ + b_, mm, a2 * s2 + b2),
                                   D.sum_((D._get(Ac[i], (a, mm, k, a2)) * D._get(xc[i], (b_, k, 0, b2)) for k in range(n)), ctx))
        R1 = r * s_ + (q if i > 0 else 0)
        R2 = r2 * s2 + (q2 if i < d - 1 else 0)
        if d == 1:
            R1, R2 = r * s_, r2 * s2
        c = ctx.zeros((R1, m, R2))
        for idx in np.ndindex(*ax.shape):
            D._set(c, idx, D._get(ax, idx))
        sign = -1 if i == 0 else 1
        for a in range(q):
            for mm in range(m):
                for a2 in range(q2):
                    if d == 1:
                        D._set(c, (a, mm, a2), D._get(c, (a, mm, a2)) - D._get(bc[i], (a, mm, 0, a2)))
                    else:
                        ro = 0 if i == 0 else r * s_
                        co = 0 if i == d - 1 else r2 * s2
                        D._set(c, (ro + a, mm, co + a2), sign * D._get(bc[i], (a, mm, 0, a2)))
        out.append(c)
    return out



def _res_grid(tier):
    shapes = all_shapes(orders=(1, 2, 3), square=True)
    sel = pick(shapes, 12 if tier == 'quick' else 60, is_edge)
    out = []
    for i, s in enumerate(sel):
        d = len(s['rows'])
        for cplx in (False, True):
            out.append({'shape': s, 'ranks_x': [1] + [1 + (i + j) % 2 for j in range(d - 1)] + [1],
                        'ranks_b': [1] + [1 + (i + j + 1) % 2 for j in range(d - 1)] + [1], 'cplx': cplx})
    return out


@scenario('C01', 'residual_error', _res_grid)
def residual(ctx, shape, ranks_x, ranks_b, cplx):
    """residual_error(A, x, b) == ||A x - b||_F : block cores contract to A x - b, every SVD argument and the final
    norm argument equal the spec built from the previous diag(s) v, dropped factors are isometries (lemma)"""
    tt = ctx.R.tt
    TT = ctx.R.TT
    d = len(shape['rows'])
    sx = {'rows': shape['cols'], 'cols': [1] * d, 'ranks': ranks_x}
    sb = {'rows': shape['rows'], 'cols': [1] * d, 'ranks': ranks_b}
    A = TT(mk_cores(ctx, 'A', shape, cplx))
    x = TT(mk_cores(ctx, 'x', sx, cplx))
    b = TT(mk_cores(ctx, 'b', sb, False))
    Am = D.as_matrix(D.tt_full(ctx, mk_cores(ctx, 'A', shape, cplx)), d)
    xm = D.as_matrix(D.tt_full(ctx, mk_cores(ctx, 'x', sx, cplx)), d)
    bm = D.as_matrix(D.tt_full(ctx, mk_cores(ctx, 'b', sb, False)), d)
    resid = D.sub(ctx, D.matmul(ctx, Am, xm), bm)
    if not ctx.sym:
        ctx.eq('residual_error == ||A x - b||', tt.residual_error(A, x, b) ** 2, D.frob2(ctx, resid), tol=1e-7)
        ctx.eq('operands unchanged', ctx.cat([D.as_matrix(A.full(), d), D.as_matrix(x.full(), d), D.as_matrix(b.full(), d)]), ctx.cat([Am, xm, bm]))
        return
    from symtt import state, lapack
    free_policy(ctx)
    val = tt.residual_error(A, x, b)
    log = list(state.S.stub_log)
    svds = [c for c in log if c.kind == 'svd']
    norms = [c for c in log if c.kind == 'norm']
    with ctx.group('residual_error == ||A x - b||'):
        ok = ctx.check('residual_error: %d SVD calls then one norm' % max(d - 1, 0), len(svds) == max(d - 1, 0) and len(norms) == 1)
        # spec: the TT  A@x - b  built by the real operators; its cores, carried through the same left-to-right sweep
        cores = _resid_cores(ctx, mk_cores(ctx, 'A', shape, cplx), mk_cores(ctx, 'x', sx, cplx), mk_cores(ctx, 'b', sb, False))
        ctx.eq('block cores of A x - b contract to the dense residual',
               D.as_matrix(D.tt_full(ctx, [c.reshape(c.shape[0], c.shape[1], 1, c.shape[2]) for c in cores]), d), resid)
        M = None
        for i in range(d if ok else 0):
            c = cores[i]
            if M is not None:
                c = D.tensordot_dense(ctx, M, [1], c, [0])
            if i < d - 1:
                call = svds[i]
                arg = c.reshape(c.shape[0] * c.shape[1], c.shape[2])
                # the block core of residual_error orders the rank index as [A x block, b block] exactly like (A@x)-b
                ctx.eq('residual_error: SVD #%d argument == carried factor times block core %d' % (i, i), call.a, arg)
                M = D.matmul(ctx, _diag(ctx, call.s), call.Vh)
            else:
                ctx.eq('residual_error: final norm argument', norms[0].v.reshape(-1), c.reshape(-1))
                ctx.check('residual_error: the returned value is the result of that norm call', val is norms[0].r)
    ctx.eq('operands unchanged', ctx.cat([D.as_matrix(A.full(), d), D.as_matrix(x.full(), d), D.as_matrix(b.full(), d)]), ctx.cat([Am, xm, bm]))
