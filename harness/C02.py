"""C02 -- contractions and structural rearrangements equal their dense definition."""
import itertools

import numpy as np

from symtt.core import scenario
from symtt import dense as D
from .common import all_shapes, pick, is_edge, mk_cores, meta_ok

META = {
    'explanation': 'tensordot (4 modes x every admissible number of axes x overwrite), rank_tensordot, concatenate, rank_transpose, '
                   'diag, squeeze, tt2qtt/qtt2tt and build_core/build_core_vector are executed on symbolic cores/blocks and compared '
                   'entry-wise (value and mode ordering, row_dims/col_dims/ranks) with index-loop dense definitions; tt2qtt goes '
                   'through the cut-point chain over its SVDs.',
    'bounds': {'quick': 'operand orders 1-3, mode sizes {1,2} (tt2qtt: sizes {2,4} split into 2x2, 2x1, 1x2), ranks {1,2}, real/complex',
               'thorough': 'larger subset of the same grid plus order-4 operands and mode size 3/6 factorizations'},
    'outside': ['tt2qtt with threshold > 0 (only rank bookkeeping)', 'tensordot operands with open boundary ranks on the non-contracted side',
                'floating-point rounding'],
    'tv_per_scenario': {'quick': 1, 'thorough': 2},
}

MODES = ['last-first', 'last-last', 'first-last', 'first-first']


def _td_grid(tier):
    out = []
    seen = set()
    cnt = 0
    for da in (1, 2, 3):
        for db in (1, 2, 3):
            for k in range(1, min(da, db) + 1):
                for mode in MODES:
                    for variant in range(2 if tier == 'quick' else 4):
                        cnt += 1
                        # contracted dims: must agree between the paired cores
                        cd = [(1 + (variant + j) % 2, 1 + (variant + j + cnt) % 2) for j in range(k)]
                        fa = [(1 + (j + variant) % 2, 1 + (j + 1) % 2) for j in range(da - k)]
                        fb = [(2 - (j + variant) % 2, 1 + (j + cnt) % 2) for j in range(db - k)]
                        if mode.startswith('last'):
                            adims = fa + cd
                        else:
                            adims = cd + fa
                        if mode.endswith('first'):
                            bdims = cd + fb
                        else:
                            bdims = fb + cd
                        ra = [1] + [1 + (j + variant) % 2 for j in range(da - 1)] + [1]
                        rb = [1] + [2 - (j + variant) % 2 for j in range(db - 1)] + [1]
                        for cplx in ((False,) if (tier == 'quick' and variant) else (False, True, 'last')):
                            if cplx == 'last' and (min(da, db) < 2 or (tier == 'quick' and (k + da + db) % 3)):
                                continue        # mixed dtypes per core: a sample in the quick tier
                            for ow in (False, True):
                                p = {'a': {'rows': [x[0] for x in adims], 'cols': [x[1] for x in adims], 'ranks': ra},
                                     'b': {'rows': [x[0] for x in bdims], 'cols': [x[1] for x in bdims], 'ranks': rb},
                                     'num_axes': k, 'mode': mode, 'cplx': cplx, 'overwrite': ow}
                                key = repr(p)
                                if key not in seen:
                                    seen.add(key)
                                    out.append(p)
    return out


def tensordot_spec(ctx, FA, da, FB, db, k, mode):
    """dense definition: contract row AND column index of the k paired cores; modes of the result:
    last-first : free(self) then free(other)                last-last  : free(self) then free(other) reversed
    first-last : free(other) then free(self)                first-first: free(other) reversed then free(self)"""
    ia = list(range(da - k, da)) if mode.startswith('last') else list(range(k))
    ib = list(range(k)) if mode.endswith('first') else list(range(db - k, db))
    axA = ia + [da + i for i in ia]
    axB = ib + [db + i for i in ib]
    res = D.tensordot_dense(ctx, FA, axA, FB, axB)
    freeA = [i for i in range(da) if i not in ia]
    freeB = [i for i in range(db) if i not in ib]
    labels = [('A', 'r', i) for i in freeA] + [('A', 'c', i) for i in freeA] + [('B', 'r', i) for i in freeB] + [('B', 'c', i) for i in freeB]
    if mode == 'last-first':
        order = [('A', i) for i in freeA] + [('B', i) for i in freeB]
    elif mode == 'last-last':
        order = [('A', i) for i in freeA] + [('B', i) for i in reversed(freeB)]
    elif mode == 'first-last':
        order = [('B', i) for i in freeB] + [('A', i) for i in freeA]
    else:
        order = [('B', i) for i in reversed(freeB)] + [('A', i) for i in freeA]
    target = [(o, 'r', i) for o, i in order] + [(o, 'c', i) for o, i in order]
    perm = [labels.index(t) for t in target]
    return res.transpose(perm) if perm else res, order


@scenario('C02', 'tensordot', _td_grid)
def tensordot(ctx, a, b, num_axes, mode, cplx, overwrite):
    """t.tensordot(u, k, mode, overwrite): dense value, mode ordering and metadata"""
    TT = ctx.R.TT
    da, db = len(a['rows']), len(b['rows'])
    t = TT(mk_cores(ctx, 'a', a, cplx))
    u = TT(mk_cores(ctx, 'b', b, cplx))
    FA = D.tt_full(ctx, mk_cores(ctx, 'a', a, cplx))
    FB = D.tt_full(ctx, mk_cores(ctx, 'b', b, cplx))
    exp, order = tensordot_spec(ctx, FA, da, FB, db, num_axes, mode)
    r = t.tensordot(u, num_axes, mode=mode, overwrite=overwrite)
    meta_ok(ctx, 'tensordot', r)
    if order:
        rows = [(a if o == 'A' else b)['rows'][i] for o, i in order]
        cols = [(a if o == 'A' else b)['cols'][i] for o, i in order]
        ctx.check('tensordot: row_dims/col_dims in the documented order', r.row_dims == rows and r.col_dims == cols,
                  detail='%s %s vs %s %s' % (r.row_dims, r.col_dims, rows, cols))
        ctx.eq('tensordot value', r.full(), exp)
    else:
        ctx.check('complete contraction: single (1,1,1,1) core', r.order == 1 and r.row_dims == [1] and r.col_dims == [1])
        ctx.eq('tensordot value (complete contraction)', r.full().reshape(()), exp.reshape(()))
    ctx.check('overwrite: result is self iff requested', (r is t) == bool(overwrite))
    ctx.eq('other operand unchanged', u.full(), FB)
    if not overwrite:
        ctx.eq('self unchanged', t.full(), FA)


# ----------------------------------------------------------------- rank_tensordot etc.
def _simple_grid(tier, n, **kw):
    sel = pick(all_shapes(**kw), n if tier == 'quick' else 4 * n, is_edge)
    out = [{'shape': s, 'cplx': c} for s in sel for c in (False, True)]
    # mixed dtypes per core (real first core / complex later core and the reverse)
    out += [{'shape': s, 'cplx': c} for i, s in enumerate(sel) if len(s['rows']) >= 2 and i % 3 == 0 for c in ('last', 'first')]
    return out


@scenario('C02', 'rank_ops', lambda tier: _simple_grid(tier, 14))
def rank_ops(ctx, shape, cplx):
    """rank_tensordot (both modes), rank_transpose, concatenate (TT and core list)"""
    TT = ctx.R.TT
    d = len(shape['rows'])
    cores = mk_cores(ctx, 'a', shape, cplx)
    ref = D.tt_full(ctx, mk_cores(ctx, 'a', shape, cplx))
    # open boundary ranks: give the train a leading/trailing rank 2 through rank_tensordot, compare with dense
    for mode, q in (('last', 2), ('first', 2)):
        M = ctx.input('M' + mode, (1, q) if mode == 'last' else (q, 1), cplx)
        t = TT(mk_cores(ctx, 'a', shape, cplx))
        r = t.rank_tensordot(M, mode=mode)
        meta_ok(ctx, 'rank_tensordot ' + mode, r)
        full_open = D.tt_full_open(ctx, r.cores)
        exp = ctx.zeros(full_open.shape)
        for idx in np.ndindex(*ref.shape):
            for j in range(q):
                if mode == 'last':
                    D._set(exp, (0,) + idx + (j,), D._get(ref, idx) * D._get(M, (0, j)))
                else:
                    D._set(exp, (j,) + idx + (0,), D._get(M, (j, 0)) * D._get(ref, idx))
        ctx.eq('rank_tensordot ' + mode, full_open, exp)
        ctx.eq('rank_tensordot %s: operand unchanged' % mode, t.full(), ref)
        r2 = t.rank_tensordot(M, mode=mode, overwrite=True)
        ctx.check('rank_tensordot %s overwrite returns self' % mode, r2 is t)
        meta_ok(ctx, 'rank_tensordot %s overwrite' % mode, t)
        ctx.eq('rank_tensordot %s overwrite value' % mode, D.tt_full_open(ctx, t.cores), exp)
    t = TT(mk_cores(ctx, 'a', shape, cplx))
    rt = t.rank_transpose()
    meta_ok(ctx, 'rank_transpose', rt)
    perm = list(range(d - 1, -1, -1)) + list(range(2 * d - 1, d - 1, -1))
    ctx.eq('rank_transpose: modes reversed', rt.full(), ref.transpose(perm))
    ctx.check('rank_transpose dims', rt.row_dims == shape['rows'][::-1] and rt.col_dims == shape['cols'][::-1] and rt.ranks == shape['ranks'][::-1])
    ctx.eq('rank_transpose: operand unchanged', t.full(), ref)
    # concatenate with another train / a core list: value is the outer product (boundary ranks 1)
    sb = {'rows': shape['cols'][:2][::-1] or [2], 'cols': shape['rows'][:2] or [1], 'ranks': [1] + [2] * (len(shape['rows'][:2]) - 1) + [1]}
    u = TT(mk_cores(ctx, 'b', sb, cplx))
    fb = D.tt_full(ctx, mk_cores(ctx, 'b', sb, cplx))
    db = len(sb['rows'])
    outer = D.tensordot_dense(ctx, ref, [], fb, [])
    # modes of outer: rowsA colsA rowsB colsB -> rowsA rowsB colsA colsB
    perm = list(range(d)) + list(range(2 * d, 2 * d + db)) + list(range(d, 2 * d)) + list(range(2 * d + db, 2 * d + 2 * db))
    for label, other in (('TT', u), ('core list', [c.copy() for c in u.cores])):
        c = t.concatenate(other)
        meta_ok(ctx, 'concatenate ' + label, c)
        ctx.eq('concatenate %s value' % label, c.full(), outer.transpose(perm))
        ctx.eq('concatenate %s: operand unchanged' % label, t.full(), ref)
        ctx.check('concatenate %s: self metadata unchanged' % label, t.order == d and t.row_dims == shape['rows'] and t.ranks == shape['ranks'])


# --------------------------------------------------------------------- diag / squeeze
def _diag_grid(tier):
    out = []
    shapes = pick(all_shapes(orders=(1, 2, 3)), 10 if tier == 'quick' else 60, is_edge)
    for s in shapes:
        d = len(s['rows'])
        for k in range(d + 1):
            for sub in itertools.combinations(range(d), k):
                cols = [1 if i in sub else s['cols'][i] for i in range(d)]
                for cplx in (False, True, 'last'):
                    if cplx == 'last' and len(s['rows']) < 2:
                        continue
                    out.append({'shape': dict(s, cols=cols), 'diag_list': list(sub), 'cplx': cplx})
    return out if tier != 'quick' else out[::2]


@scenario('C02', 'diag', _diag_grid)
def diag(ctx, shape, diag_list, cplx):
    """t.diag(list): listed modes become diagonal (delta in row/column index), other cores untouched"""
    TT = ctx.R.TT
    d = len(shape['rows'])
    t = TT(mk_cores(ctx, 'a', shape, cplx))
    ref = D.tt_full(ctx, mk_cores(ctx, 'a', shape, cplx))
    r = t.diag(list(diag_list))
    meta_ok(ctx, 'diag', r)
    cols = [shape['rows'][i] if i in diag_list else shape['cols'][i] for i in range(d)]
    ctx.check('diag dims', r.row_dims == shape['rows'] and r.col_dims == cols)
    exp = ctx.zeros(tuple(shape['rows']) + tuple(cols))
    for idx in np.ndindex(*exp.shape):
        I, J = idx[:d], idx[d:]
        if all(I[i] == J[i] for i in diag_list):
            src = I + tuple(0 if i in diag_list else J[i] for i in range(d))
            D._set(exp, idx, D._get(ref, src))
    ctx.eq('diag value', r.full(), exp)
    ctx.eq('diag: operand unchanged', t.full(), ref)


def _sq_grid(tier):
    out = []
    for d in (1, 2, 3, 4):
        for pattern in itertools.product((0, 1), repeat=d):      # 1 = real mode, 0 = size-1 mode
            if not any(pattern):
                continue
            if tier == 'quick' and d == 4 and sum(pattern) not in (1, 2):
                continue
            rows = [2 if p else 1 for p in pattern]
            for vec in (True, False):
                cols = [1 if (vec or not p) else 2 for p in pattern]
                for rk in ((2,) * (d - 1), tuple(1 + (j % 2) for j in range(d - 1))):
                    for cplx in (False, True):
                        if tier == 'quick' and cplx and not vec:
                            continue
                        out.append({'shape': {'rows': rows, 'cols': cols, 'ranks': [1] + list(rk) + [1]}, 'cplx': cplx})
    seen = set()
    res = []
    for p in out:
        if repr(p) not in seen:
            seen.add(repr(p))
            res.append(p)
    return res


@scenario('C02', 'squeeze', _sq_grid)
def squeeze(ctx, shape, cplx):
    """t.squeeze(): size-1 modes removed (leading, inner, trailing), value kept"""
    TT = ctx.R.TT
    d = len(shape['rows'])
    t = TT(mk_cores(ctx, 'a', shape, cplx))
    ref = D.tt_full(ctx, mk_cores(ctx, 'a', shape, cplx))
    keep = [i for i in range(d) if not (shape['rows'][i] == 1 and shape['cols'][i] == 1)]
    r = t.squeeze()
    meta_ok(ctx, 'squeeze', r)
    ctx.check('squeeze dims', r.row_dims == [shape['rows'][i] for i in keep] and r.col_dims == [shape['cols'][i] for i in keep])
    ctx.eq('squeeze value', r.full(), ref.reshape([shape['rows'][i] for i in keep] + [shape['cols'][i] for i in keep]))
    # the operand must still denote the same tensor and be consistent (squeeze is documented to return a new TT)
    okmeta = all(tuple(t.cores[i].shape) == (t.ranks[i], t.row_dims[i], t.col_dims[i], t.ranks[i + 1]) for i in range(t.order))
    ctx.check('squeeze: operand metadata still consistent', okmeta)
    if okmeta:
        ctx.eq('squeeze: operand unchanged', t.full(), ref)


# ------------------------------------------------------------------------ tt2qtt / qtt2tt
def _qtt_grid(tier):
    out = []
    facs = {1: [[1], [1, 1]], 2: [[2], [2, 1], [1, 2]], 4: [[2, 2], [4], [4, 1]], 6: [[2, 3], [3, 2]]}
    sizes = (1, 2, 4) if tier == 'quick' else (1, 2, 4, 6)
    cnt = 0
    for d in (1, 2) if tier == 'quick' else (1, 2, 3):
        for rows in itertools.product(sizes, repeat=d):
            for cols in itertools.product((1, 2, 4) if tier != 'quick' else (1, 2), repeat=d):
                for v in range(2):
                    rf, cf = [], []
                    ok = True
                    for i in range(d):
                        a = facs[rows[i]][(v + i) % len(facs[rows[i]])]
                        cands = [c for c in facs[cols[i]] if len(c) == len(a)]
                        if not cands:
                            ok = False
                            break
                        rf.append(a)
                        cf.append(cands[(v + cnt) % len(cands)])
                    if not ok or all(len(a) == 1 for a in rf):
                        continue
                    cnt += 1
                    if int(np.prod(rows)) * int(np.prod(cols)) > 32:
                        continue
                    rk = [1] + [1 + (j + v) % 2 for j in range(d - 1)] + [1]
                    for cplx in (False, True):
                        if tier == 'quick' and cplx and cnt % 3:
                            continue
                        out.append({'shape': {'rows': list(rows), 'cols': list(cols), 'ranks': rk}, 'row_f': rf, 'col_f': cf, 'cplx': cplx})
    return out if tier != 'quick' else out[:60]


@scenario('C02', 'qtt', _qtt_grid)
def qtt(ctx, shape, row_f, col_f, cplx):
    """tt2qtt splits modes (value = reshape, chain over its SVDs); qtt2tt merges them back (identity)"""
    TT = ctx.R.TT
    d = len(shape['rows'])
    ref = D.tt_full(ctx, mk_cores(ctx, 'a', shape, cplx))
    flat_r = [x for f in row_f for x in f]
    flat_c = [x for f in col_f for x in f]
    exp = ref.reshape(flat_r + flat_c)
    merge = [len(f) for f in row_f]
    box = {}

    def run():
        t = TT(mk_cores(ctx, 'a', shape, cplx))
        q = t.tt2qtt(row_f, col_f)
        box['q'] = q
        box['t'] = t
        back = q.qtt2tt(merge)
        box['back'] = back
        return ctx.cat([q.full(), back.full()])

    def spec():
        return ctx.cat([exp, ref])
    ctx.chain('tt2qtt value and qtt2tt(tt2qtt(t)) == t', run, spec)
    q, back, t = box['q'], box['back'], box['t']
    meta_ok(ctx, 'tt2qtt', q)
    meta_ok(ctx, 'qtt2tt', back)
    ctx.check('tt2qtt dims', q.row_dims == flat_r and q.col_dims == flat_c)
    ctx.check('qtt2tt dims restored', back.row_dims == shape['rows'] and back.col_dims == shape['cols'])
    ctx.eq('tt2qtt: operand unchanged', t.full(), ref)
    # qtt2tt alone on a symbolic QTT: every composition of the order
    qs = {'rows': flat_r, 'cols': flat_c, 'ranks': [1] + [2] * (len(flat_r) - 1) + [1]}
    if int(np.prod(flat_r)) * int(np.prod(flat_c)) <= 32 and len(flat_r) <= 4:
        qq = TT(mk_cores(ctx, 'q', qs, cplx))
        qref = D.tt_full(ctx, mk_cores(ctx, 'q', qs, cplx))
        n = len(flat_r)
        for comp in _compositions(n):
            m = qq.qtt2tt(list(comp))
            rows, cols, k = [], [], 0
            for c in comp:
                rows.append(int(np.prod(flat_r[k:k + c])))
                cols.append(int(np.prod(flat_c[k:k + c])))
                k += c
            ctx.check('qtt2tt %s dims' % (list(comp),), m.row_dims == rows and m.col_dims == cols)
            ctx.eq('qtt2tt %s value' % (list(comp),), m.full(), qref.reshape(rows + cols))


def _compositions(n):
    if n == 0:
        yield ()
        return
    for first in range(1, n + 1):
        for rest in _compositions(n - first):
            yield (first,) + rest


# -------------------------------------------------------------------------- build_core
def _bc_grid(tier):
    out = []
    for r1, r2 in ((1, 1), (1, 2), (2, 1), (2, 2), (3, 2)):
        for m, n in ((2, 2), (1, 2), (2, 1)):
            n_pat = 2 ** (r1 * r2)
            pats = range(n_pat)
            if n_pat > 16:
                pats = [0, 1, 5, 21, 42, 63, 32, 33]
            for pat in pats:
                for cpat in (0, 1, 2, 3):      # which blocks are complex: none / first / last / all
                    for isc in (False, True):
                        if tier == 'quick' and (pat % 3 == 1) and cpat in (1, 2):
                            continue
                        out.append({'r1': r1, 'r2': r2, 'm': m, 'n': n, 'zero_pattern': pat, 'cplx_pattern': cpat, 'iscomplex': isc})
    return out


def _blocks(ctx, r1, r2, m, n, zero_pattern, cplx_pattern):
    blocks = []
    nz = [(i, j) for i in range(r1) for j in range(r2) if not (zero_pattern >> (i * r2 + j)) & 1]
    for i in range(r1):
        row = []
        for j in range(r2):
            if (zero_pattern >> (i * r2 + j)) & 1:
                row.append(0)
            else:
                k = nz.index((i, j))
                cplx = cplx_pattern == 3 or (cplx_pattern == 1 and k == 0) or (cplx_pattern == 2 and k == len(nz) - 1)
                row.append(ctx.input('B%d_%d' % (i, j), (m, n), cplx))
        blocks.append(row)
    return blocks, nz


@scenario('C02', 'build_core', _bc_grid)
def build_core(ctx, r1, r2, m, n, zero_pattern, cplx_pattern, iscomplex):
    """build_core(matrix lists with 0 placeholders): core[i,:,:,j] == block (i,j) or 0; real/complex blocks; iscomplex on/off"""
    tt = ctx.R.tt
    blocks, nz = _blocks(ctx, r1, r2, m, n, zero_pattern, cplx_pattern)
    if not nz:
        return
    core = tt.build_core(blocks, iscomplex=iscomplex)
    exp = ctx.zeros((r1, m, n, r2))
    for (i, j) in nz:
        for a in range(m):
            for b in range(n):
                D._set(exp, (i, a, b, j), D._get(blocks[i][j], (a, b)))
    ctx.check('build_core shape', tuple(core.shape) == (r1, m, n, r2))
    ctx.eq('build_core value', core, exp)
    if r2 == 1:
        # vector variant: a flat list of blocks (and of 1-d vectors when n == 1)
        flat = [row[0] for row in blocks]
        cv = tt.build_core(flat, iscomplex=iscomplex)
        ctx.check('build_core (flat list) shape', tuple(cv.shape) == (r1, m, n, 1))
        ctx.eq('build_core (flat list) value', cv, exp)
        if n == 1:
            flat1 = [b if isinstance(b, int) else b.reshape(m) for b in flat]
            cv1 = tt.build_core(flat1, iscomplex=iscomplex)
            ctx.eq('build_core (list of vectors) value', cv1, exp)
