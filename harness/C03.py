"""C03 -- orthonormalisation preserves the tensor and yields orthonormal cores."""
import itertools

import numpy as np

from symtt.core import scenario
from symtt import dense as D
from .common import free_policy, all_shapes, pick, is_edge, mk_cores, meta_ok

META = {
    'explanation': 'ortho_left / ortho_right / ortho (no truncation), full and partial sweeps for every admissible (start, end): '
                   '(II) the dense value is unchanged for EVERY valid factorisation the SVD may return (cut-point chain, hypothesis '
                   'free); (I) under fresh symbolic SVD outputs every processed core is entry-for-entry reshape(U) resp. reshape(Vh) of '
                   'an SVD whose argument equals the unfolding of the carried factor times the core (so the SVD contract U^H U = I '
                   'makes it an isometry), untouched cores are term-identical to the input; (S) ranks never grow and order/dims/ranks '
                   'match the core shapes. Trains with mixed dtypes per core (real start core, complex later core) are part of the grid; a per-bond cap list that does not bind gives the result of no cap and is left unchanged. NOT solver-decided, sampled by the validation run (scenario badly_scaled): cores of size 1e-20 next to cores of size 1e+20 and tensors of size 1e-19 -- value preserved to relative accuracy, isometries.',
    'bounds': {'quick': 'orders 1-4, mode sizes {1,2}, inner ranks {1,2,3} (rank-deficient/over-parameterised cores included: all values, '
                        'ranks above the mode product), operators and vectors, real and complex; all (start,end)',
               'thorough': 'same grid, larger subset, plus mode size 3'},
    'outside': ['that LAPACK returns orthonormal factors (contract)', 'floating-point loss of orthogonality', 'truncating calls (C04)'],
    'tv_all': ['badly_scaled'],
    'tv_per_scenario': {'quick': 2, 'thorough': 4},
}


def _grid(tier):
    shapes = all_shapes(orders=(1, 2, 3), dims=(1, 2), ranks=(1, 2, 3))
    sel = pick(shapes, 40 if tier == 'quick' else 260, lambda s: is_edge(s) and max(s['ranks']) == 3)
    sel += [{'rows': [2, 1, 2, 2], 'cols': [1, 2, 1, 1], 'ranks': [1, 2, 3, 2, 1]},
            {'rows': [2, 2, 2, 2], 'cols': [1, 1, 1, 1], 'ranks': [1, 2, 2, 2, 1]}]
    if tier != 'quick':
        sel += [{'rows': [3, 2, 3], 'cols': [1, 3, 1], 'ranks': [1, 3, 2, 1]}, {'rows': [2, 3], 'cols': [3, 2], 'ranks': [1, 4, 1]}]
    out = []
    for i, s in enumerate(sel):
        for cplx in (False, True):
            if tier == 'quick' and cplx and i % 2:
                continue
            out.append({'shape': s, 'cplx': cplx})
        # mixed dtypes per core (a real train with a complex gate on one site): the core a sweep starts on is real, a later one complex
        if len(s['rows']) >= 2 and (tier != 'quick' or i % 4 == 0):
            for mask in ('first', 'last', 'inner'):
                out.append({'shape': s, 'cplx': mask})
    return out


def _unfold_left(c):
    return c.reshape(c.shape[0] * c.shape[1] * c.shape[2], c.shape[3])


def _unfold_right(c):
    return c.reshape(c.shape[0], c.shape[1] * c.shape[2] * c.shape[3])


def _diag(ctx, s):
    k = s.shape[0]
    out = ctx.zeros((k, k))
    for i in range(k):
        D._set(out, (i, i), D._get(s, (i,)))
    return out


def _gram_ok(ctx, label, M, side):
    """concrete mode: numeric isometry test"""
    A = np.asarray(ctx._num(M))
    G = A.conj().T @ A if side == 'left' else A @ A.conj().T
    return ctx.eq(label, G, np.eye(G.shape[0]), tol=1e-9)


def _sweep(ctx, shape, cplx, which, start, end):
    TT = ctx.R.TT
    d = len(shape['rows'])
    ref = D.tt_full(ctx, mk_cores(ctx, 'a', shape, cplx))
    tag = '%s[%s,%s]' % (which, start, end)
    box = {}

    def run():
        t = TT(mk_cores(ctx, 'a', shape, cplx))
        if which == 'left':
            r = t.ortho_left(start_index=start, end_index=end)
        elif which == 'right':
            r = t.ortho_right(start_index=start, end_index=end)
        else:
            r = t.ortho()
        box['t'], box['r'] = t, r
        return t.full()
    ctx.chain(tag + ': value unchanged', run, lambda: ref)
    t = box['t']
    ctx.check(tag + ': returns self', box['r'] is t)
    meta_ok(ctx, tag, t)
    ctx.check(tag + ': no rank increased and dims kept', all(a <= b for a, b in zip(t.ranks, shape['ranks'])) and
              t.row_dims == shape['rows'] and t.col_dims == shape['cols'] and t.order == d,
              detail='%s vs %s' % (t.ranks, shape['ranks']))
    if not ctx.sym:
        # numeric isometry of the processed cores
        if which in ('left',):
            for i in range(start, end + 1):
                _gram_ok(ctx, tag + ': core %d left-orthonormal' % i, _unfold_left(t.cores[i]), 'left')
        if which in ('right', 'both'):
            rng = range(end, start + 1) if which == 'right' else range(1, d)
            for i in rng:
                _gram_ok(ctx, tag + ': core %d right-orthonormal' % i, _unfold_right(t.cores[i]), 'right')
        return
    # ---- symbolic: fresh SVD outputs; processed cores are reshape(U)/reshape(Vh), arguments equal the spec
    from symtt import state, lapack
    free_policy(ctx)
    cores = mk_cores(ctx, 'a', shape, cplx)
    t = TT(mk_cores(ctx, 'a', shape, cplx))
    if which == 'left':
        t.ortho_left(start_index=start, end_index=end)
    elif which == 'right':
        t.ortho_right(start_index=start, end_index=end)
    else:
        t.ortho()
    calls = [c for c in state.S.stub_log if c.kind == 'svd']
    steps = []
    if which in ('left', 'both'):
        steps += [('L', i) for i in (range(start, end + 1) if which == 'left' else range(0, d - 1))]
    if which in ('right', 'both'):
        steps += [('R', i) for i in (range(start, end - 1, -1) if which == 'right' else range(d - 1, 0, -1))]
    ctx.check(tag + ': one SVD per processed bond (%d)' % len(steps), len(calls) == len(steps))
    if len(calls) != len(steps):
        return
    cur = [c for c in cores]           # spec state of the cores
    for (side, i), call in zip(steps, calls):
        if side == 'L':
            ctx.eq(tag + ': SVD argument at core %d == its left unfolding' % i, call.a, _unfold_left(cur[i]))
            k = call.U.shape[1]
            cur[i] = call.U.reshape(cur[i].shape[0], cur[i].shape[1], cur[i].shape[2], k)
            SV = D.matmul(ctx, _diag(ctx, call.s), call.Vh)
            cur[i + 1] = D.tensordot_dense(ctx, SV, [1], cur[i + 1], [0])
        else:
            ctx.eq(tag + ': SVD argument at core %d == its right unfolding' % i, call.a, _unfold_right(cur[i]))
            k = call.Vh.shape[0]
            cur[i] = call.Vh.reshape(k, cur[i].shape[1], cur[i].shape[2], cur[i].shape[3])
            US = D.matmul(ctx, call.U, _diag(ctx, call.s))
            prev = cur[i - 1]
            cur[i - 1] = D.matmul(ctx, _unfold_left(prev), US).reshape(prev.shape[0], prev.shape[1], prev.shape[2], k)
    for i in range(d):
        ctx.eq(tag + ': core %d == spec (isometry factor of its SVD / carried factor / untouched input)' % i, t.cores[i], cur[i])
    touched = set()
    for side, i in steps:
        touched.update([i, i + 1] if side == 'L' else [i, i - 1])
    for i in range(d):
        if i not in touched:
            ctx.check(tag + ': core %d outside the sweep is term-identical to the input' % i,
                      all(D._get(t.cores[i], idx) is D._get(t.cores[i], idx) and
                          D._get(t.cores[i], idx).eq_term(D._get(cores[i], idx)) is True for idx in np.ndindex(*cores[i].shape)))


@scenario('C03', 'ortho_left', _grid)
def ortho_left(ctx, shape, cplx):
    """ortho_left for every (start_index, end_index)"""
    d = len(shape['rows'])
    if d == 1:
        _sweep(ctx, shape, cplx, 'left', 0, -1)
        return
    for start in range(0, d - 1):
        for end in range(start, d - 1):
            _sweep(ctx, shape, cplx, 'left', start, end)
    _default_args(ctx, shape, cplx, 'left')


@scenario('C03', 'ortho_right', _grid)
def ortho_right(ctx, shape, cplx):
    """ortho_right for every (start_index, end_index)"""
    d = len(shape['rows'])
    if d == 1:
        _sweep(ctx, shape, cplx, 'right', 0, 1)
        return
    for start in range(d - 1, 0, -1):
        for end in range(start, 0, -1):
            _sweep(ctx, shape, cplx, 'right', start, end)
    _default_args(ctx, shape, cplx, 'right')


def _default_args(ctx, shape, cplx, which):
    """default arguments mean the full sweep"""
    TT = ctx.R.TT
    d = len(shape['rows'])
    if ctx.sym:
        from symtt import state, lapack
        state.reset()
        lapack.set_policy(lapack.TrivPolicy())
    t = TT(mk_cores(ctx, 'a', shape, cplx))
    u = TT(mk_cores(ctx, 'a', shape, cplx))
    if which == 'left':
        t.ortho_left()
        u.ortho_left(start_index=0, end_index=d - 2)
    else:
        t.ortho_right()
        u.ortho_right(start_index=d - 1, end_index=1)
    ctx.check('%s: default arguments == full sweep (ranks)' % which, t.ranks == u.ranks)
    if ctx.sym:
        for i in range(d):
            ctx.eq('%s: default arguments == full sweep (core %d, same trivial factorisations)' % (which, i), t.cores[i], u.cores[i])
    # a per-bond cap list that does not bind (the current ranks, or larger) is not a truncation: same result as no cap at all
    for caps in ([1] + [r + 1 for r in shape['ranks'][1:-1]] + [1], list(shape['ranks'])):
        w = TT(mk_cores(ctx, 'a', shape, cplx))
        keep = list(caps)
        if which == 'left':
            w.ortho_left(max_rank=caps)
        else:
            w.ortho_right(max_rank=caps)
        ctx.check('%s: non-binding cap list %s == no cap (ranks)' % (which, keep), w.ranks == t.ranks, detail='%s vs %s' % (w.ranks, t.ranks))
        ctx.check('%s: the caller\'s cap list is left unchanged' % which, list(caps) == keep)
        if w.ranks == t.ranks:
            ctx.eq('%s: non-binding cap list == no cap (value)' % which, w.full(), t.full(), tol=1e-9)


@scenario('C03', 'ortho', _grid)
def ortho(ctx, shape, cplx):
    """two-sided ortho(): left sweep then right sweep, value unchanged, all cores but the first right-orthonormal"""
    _sweep(ctx, shape, cplx, 'both', None, None)


# ------------------------------------------------------------ badly scaled cores (concrete only)
@scenario('C03', 'badly_scaled', lambda tier: [{'which': w, 'scales': sc, 'cplx': c} for w in ('left', 'right', 'both')
                                                for sc in ([1e-20, 1e20, 1.0], [1e-19, 1.0, 1.0], [1.0, 1e20, 1e-20]) for c in (False, True)])
def badly_scaled(ctx, which, scales, cplx):
    """NOT a solver verdict (floating-point scale, outside exact arithmetic): orthonormalisation does not depend on how the magnitude of the tensor is
    distributed over the cores -- cores of size 1e-20 next to cores of size 1e+20, or a whole tensor of size 1e-19: value preserved to relative
    accuracy, processed cores isometries, ranks kept"""
    TT = ctx.R.TT
    if ctx.mode == 'tv':
        from symtt.core import SkipTV
        raise SkipTV()
    if ctx.sym:
        ctx.held('scale independence is exercised by the concrete validation run of this scenario (sampling, stated in the evidence)')
        return
    rng = np.random.RandomState(23)
    rk = [1, 2, 3, 1]
    dims = [2, 3, 2]
    cores = [(rng.randn(rk[i], dims[i], 1, rk[i + 1]) + (1j * rng.randn(rk[i], dims[i], 1, rk[i + 1]) if cplx else 0)) * scales[i] for i in range(3)]
    ref = np.einsum('aib,bjc,ckd->ijk', cores[0][:, :, 0, :], cores[1][:, :, 0, :], cores[2][:, :, 0, :])
    t = TT([c.copy() for c in cores])
    if which == 'left':
        t.ortho_left()
    elif which == 'right':
        t.ortho_right()
    else:
        t.ortho()
    got = np.einsum('aib,bjc,ckd->ijk', t.cores[0][:, :, 0, :], t.cores[1][:, :, 0, :], t.cores[2][:, :, 0, :])
    err = float(np.linalg.norm(got - ref) / np.linalg.norm(ref))
    ctx.check('ortho_%s on badly scaled cores: value unchanged to relative accuracy' % which, all(a <= b for a, b in zip(t.ranks, rk)) and err <= 1e-9, detail='relative error %.3e, ranks %s' % (err, t.ranks))
    idx = [0, 1] if which == 'left' else [1, 2]
    for i in idx:
        c = t.cores[i]
        M = c.reshape(-1, c.shape[3]) if which == 'left' else c.reshape(c.shape[0], -1)
        G = M.conj().T @ M if which == 'left' else M @ M.conj().T
        ctx.check('ortho_%s on badly scaled cores: core %d is an isometry' % (which, i), float(np.linalg.norm(G - np.eye(G.shape[0]))) <= 1e-9)
