"""C04 -- rank truncation is bounded in rank and in error."""
import itertools

import numpy as np

from symtt.core import scenario
from symtt import dense as D
from .common import all_shapes, pick, is_edge, mk_cores, meta_ok

META = {
    'explanation': 'Truncating calls are run with a SYMBOLIC relative threshold 0<theta<1 and symbolic sorted singular values; the '
                   'explorer forks on every data-dependent cut (np.where(s/s[0] > theta)) and on every feasible path the solver/shape '
                   'logic shows: (rank) no inner rank exceeds max_rank (int or per-bond list); (structure, the hypotheses of the TT-SVD '
                   'theorem) the kept factors are exactly the LEADING r columns/rows/values of the SVD outputs, the discarded values '
                   'are <= theta*s0 and the kept ones > theta*s0, every SVD argument is the unfolding of the carried factor times the '
                   'core, in ortho() all truncation happens in the right sweep after a complete untruncated left sweep, in the array '
                   'constructor the left factors are the U of the SVDs; (exactness) threshold 0 / unbounded rank reproduces the array '
                   'for every valid factorisation (cut-point chain). Concrete replays additionally evaluate the property\'s own inequalities on the unmodified code: ||x - TT(x)||_F^2 <= sum over the unfoldings of the discarded squared singular values (TT-SVD bound) and, with a threshold only, <= (threshold ||x||)^2 times the number of discarded directions. A per-bond cap list handed to ortho / ortho_left / ortho_right comes back unchanged.',
    'bounds': {'quick': 'TT(array): array shapes (m1..md,n1..nd) of order 1-3 with sizes {1,2,3}, <= 16 entries; ortho*: orders 2-3, sizes {1,2}, '
                        'ranks {2,3}; max_rank in {1,2,inf} and per-bond lists; theta symbolic or 0; real and complex',
               'thorough': 'same plus order 4 and arrays up to 36 entries'},
    'outside': ['the numerical VALUE of the error bounds (quasi-optimality sqrt(sum eps_k^2), theta*||T||*sqrt(#discarded)): they follow from the '
                'structural conditions decided here by Oseledets 2011 Thm 2.2 -- the inequality itself needs singular-value interlacing and is '
                'not solver-checked', 'floating-point rounding'],
    'assumptions': ['SVD contract: s sorted, s0 > 0 when a relative threshold is applied (division by s[0])'],
    'tv_per_scenario': {'quick': 1, 'thorough': 2},
}


def _diag(ctx, s):
    k = s.shape[0]
    out = ctx.zeros((k, k))
    for i in range(k):
        D._set(out, (i, i), D._get(s, (i,)))
    return out


def _theta(ctx, use):
    if not use:
        return 0
    if not ctx.sym:
        return ctx.scalar('theta', lo=0.001, hi=0.2)     # replay / random runs: a small cut, so that truncation paths differ
    return ctx.scalar('theta', lo=(0,), hi=(1,))


def _cut_ok(ctx, label, call, r, theta, use_theta, max_rank):
    """on this path: kept values are a prefix of length r; kept > theta*s0 >= dropped (unless cut by max_rank)"""
    if not ctx.sym:
        return
    import z3
    from symtt.scalar import Sc, zterm
    s = [Sc.of(x) for x in call.s.plain()]
    k = len(s)
    conds = []
    if use_theta:
        th = zterm(Sc.of(theta).re)
        s0 = zterm(s[0].re)
        for j in range(r):
            conds.append(zterm(s[j].re) > th * s0)
        capped = (max_rank is not None and r == max_rank)
        if not capped:
            for j in range(r, k):
                conds.append(zterm(s[j].re) <= th * s0)
    else:
        full = k if max_rank is None else min(k, max_rank)
        ctx.check(label + ': rank = min(k, max_rank) without threshold', r == full)
    if conds:
        ctx.check(label + ': kept s_j > theta*s_0 >= discarded s_j on this path', z3.And(*conds), form='IV')


# ------------------------------------------------------------------- array constructor
def _arr_grid(tier):
    out = []
    for d in (1, 2, 3):
        for rows in itertools.product((1, 2, 3), repeat=d):
            for cols in itertools.product((1, 2), repeat=d):
                n = int(np.prod(rows)) * int(np.prod(cols))
                if n > (16 if tier == 'quick' else 36) or n < 2:
                    continue
                out.append({'rows': list(rows), 'cols': list(cols)})
    sel = pick(out, 24 if tier == 'quick' else 90, lambda p: len(p['rows']) >= 2 and 1 in p['rows'])
    res = []
    for i, p in enumerate(sel):
        for cplx in (False, True):
            if cplx and tier == 'quick' and i % 3:
                continue
            res.append(dict(p, cplx=cplx))
    return res


@scenario('C04', 'from_array_exact', _arr_grid)
def from_array_exact(ctx, rows, cols, cplx):
    """TT(x) with threshold 0 and unbounded rank reproduces x (chain over the SVDs of the constructor)"""
    TT = ctx.R.TT
    d = len(rows)
    x = ctx.input('x', tuple(rows) + tuple(cols), cplx)
    box = {}

    def run():
        t = TT(ctx.input('x', tuple(rows) + tuple(cols), cplx))
        box['t'] = t
        return t.full()
    ctx.chain('TT(x).full() == x', run, lambda: x)
    t = box['t']
    meta_ok(ctx, 'TT(x)', t)
    ctx.check('TT(x): dims', t.row_dims == list(rows) and t.col_dims == list(cols))


def _arr_trunc_grid(tier):
    out = []
    for p in _arr_grid(tier):
        d = len(p['rows'])
        if d < 2:
            continue
        for use_theta in (False, True):
            for mr in (None, 1, 2):
                if not use_theta and mr is None:
                    continue
                if tier == 'quick' and p['cplx'] and (mr == 2 or not use_theta):
                    continue
                out.append(dict(p, use_theta=use_theta, max_rank=mr))
    return out


@scenario('C04', 'from_array_truncated', _arr_trunc_grid)
def from_array_truncated(ctx, rows, cols, cplx, use_theta, max_rank):
    """TT(x, threshold=theta, max_rank=r): ranks bounded; cores are the leading-r columns of the SVD outputs of the unfolded residual"""
    TT = ctx.R.TT
    d = len(rows)
    theta = _theta(ctx, use_theta)
    mr = np.inf if max_rank is None else max_rank

    def body():
        if ctx.sym:
            from symtt import state, lapack
            lapack.set_policy(lapack.FreePolicy(positive_spectrum='first'))
        x = ctx.input('x', tuple(rows) + tuple(cols), cplx)
        t = TT(x, threshold=theta, max_rank=mr)
        tag = 'TT(x,theta,%s) path ranks=%s' % (max_rank, t.ranks)
        meta_ok(ctx, tag, t)
        if max_rank is not None:
            ctx.check(tag + ': no inner rank exceeds max_rank', all(r <= max_rank for r in t.ranks[1:-1]))
        if ctx.mode == 'tv':
            return t.ranks
        if not ctx.sym:
            # concrete mode (replays): the property's own sentences, against NumPy SVDs of the unfoldings of x
            xn = np.asarray(x)
            p_ = [d * j + i for i in range(d) for j in range(2)]
            y_ = xn.transpose(p_)
            err2 = float(np.linalg.norm(np.asarray(t.full()).reshape(-1) - xn.reshape(-1)) ** 2)
            bound2, ndisc = 0.0, 0
            for k in range(1, d):
                m_ = int(np.prod([rows[i] * cols[i] for i in range(k)]))
                sv = np.linalg.svd(y_.reshape(m_, -1), compute_uv=False)
                bound2 += float(np.sum(sv[t.ranks[k]:] ** 2))
                ndisc += max(0, len(sv) - t.ranks[k])
            nx = float(np.linalg.norm(xn))
            ctx.check('TT(x, theta, max_rank): Frobenius error <= root-sum-square of the best rank-r errors of the unfoldings (TT-SVD bound)',
                      err2 <= bound2 * (1 + 1e-8) + 1e-20 * max(1.0, nx * nx), detail='err^2 %.6e bound^2 %.6e' % (err2, bound2))
            if use_theta and max_rank is None:
                th = float(theta)
                ctx.check('TT(x, theta, max_rank): error <= threshold * ||x|| * sqrt(#discarded directions)',
                          err2 <= (th * nx) ** 2 * ndisc * (1 + 1e-8) + 1e-20 * max(1.0, nx * nx), detail='err^2 %.6e theta %.4f ndisc %d' % (err2, th, ndisc))
            return t.ranks
        from symtt import state
        calls = [c for c in state.S.stub_log if c.kind == 'svd']
        ctx.check(tag + ': d-1 SVDs', len(calls) == d - 1)
        # spec: residual y_0 = x permuted to (m1 n1 m2 n2 ...); y_{i+1} = diag(s[:r]) Vh[:r]
        p = [d * j + i for i in range(d) for j in range(2)]
        y = x.transpose(p)
        r_prev = 1
        for i, call in enumerate(calls):
            m = r_prev * rows[i] * cols[i]
            arg = y.reshape(m, -1)
            ctx.eq(tag + ': SVD %d argument == unfolding of the residual' % i, call.a, arg)
            r = t.ranks[i + 1]
            ctx.eq(tag + ': core %d == leading %d columns of U' % (i, r), t.cores[i], call.U[:, :r].reshape(r_prev, rows[i], cols[i], r))
            _cut_ok(ctx, tag + ' SVD %d' % i, call, r, theta, use_theta, max_rank)
            y = D.matmul(ctx, _diag(ctx, call.s[:r]), call.Vh[:r, :])
            r_prev = r
        ctx.eq(tag + ': last core == carried diag(s) Vh', t.cores[-1], y.reshape(r_prev, rows[-1], cols[-1], 1))
        return t.ranks
    res = ctx.explore('TT(x, theta, max_rank)', body)
    ctx.check('at least one feasible path', len(res) >= 1)


# ------------------------------------------------------------------------------ ortho*
def _ortho_grid(tier):
    shapes = [s for s in all_shapes(orders=(2, 3), dims=(1, 2), ranks=(2, 3)) if int(np.prod(s['rows'])) * int(np.prod(s['cols'])) >= 4]
    sel = pick(shapes, 10 if tier == 'quick' else 40, lambda s: len(set(s['ranks'][1:-1])) > 1)
    if tier != 'quick':
        sel.append({'rows': [2, 2, 2, 2], 'cols': [1, 1, 1, 1], 'ranks': [1, 2, 3, 2, 1]})
    out = []
    for i, s in enumerate(sel):
        d = len(s['rows'])
        mrs = [1, 2, 'list']
        for which in ('left', 'right', 'both'):
            for use_theta in (False, True):
                for mr in mrs + ([None] if use_theta else []):
                    for cplx in (False, True):
                        if cplx and (tier == 'quick') and (i % 4 or mr != 1):
                            continue
                        out.append({'shape': s, 'which': which, 'use_theta': use_theta, 'max_rank': mr, 'cplx': cplx})
            if i % 5 == 0 or tier != 'quick':       # mixed dtypes per core
                for mask in ('first', 'last'):
                    out.append({'shape': s, 'which': which, 'use_theta': False, 'max_rank': 1, 'cplx': mask})
    return out


@scenario('C04', 'ortho_truncated', _ortho_grid)
def ortho_truncated(ctx, shape, which, use_theta, max_rank, cplx):
    """ortho_left / ortho_right / ortho with threshold and/or max_rank (int or per-bond list): rank bound on every path, leading
    singular triplets kept, ortho() truncates only in its right sweep"""
    TT = ctx.R.TT
    d = len(shape['rows'])
    theta = _theta(ctx, use_theta)
    if max_rank == 'list':
        mr = [1] + [1 + (j % 2) for j in range(d - 1)] + [1]
    elif max_rank is None:
        mr = np.inf
    else:
        mr = max_rank
    bound = mr if isinstance(mr, list) else [1] + [mr] * (d - 1) + [1]

    def body():
        if ctx.sym:
            from symtt import state, lapack
            lapack.set_policy(lapack.FreePolicy(positive_spectrum='first'))
        cores = mk_cores(ctx, 'a', shape, cplx)
        t = TT(mk_cores(ctx, 'a', shape, cplx))
        mr_arg = list(mr) if isinstance(mr, list) else mr      # the object handed to the code (a list must come back as it went in)
        if which == 'left':
            t.ortho_left(threshold=theta, max_rank=mr_arg)
        elif which == 'right':
            t.ortho_right(threshold=theta, max_rank=mr_arg)
        else:
            t.ortho(threshold=theta, max_rank=mr_arg)
        tag = 'ortho_%s(theta=%s,max_rank=%s) path ranks=%s' % (which, 'sym' if use_theta else 0, max_rank, t.ranks)
        meta_ok(ctx, tag, t)
        if isinstance(mr, list):
            ctx.check(tag.split(' path ')[0] + ': the per-bond cap list of the caller is left unchanged (it can be reused for the next tensor)', mr_arg == mr,
                      detail='%s -> %s' % (mr, mr_arg))
        ctx.check(tag + ': no inner rank exceeds max_rank', all(t.ranks[i] <= bound[i] for i in range(1, d)),
                  detail='%s vs bound %s' % (t.ranks, bound))
        ctx.check(tag + ': ranks never grow', all(a <= b for a, b in zip(t.ranks, shape['ranks'])))
        steps = []
        if which in ('left', 'both'):
            steps += [('L', i) for i in range(0, d - 1)]
        if which in ('right', 'both'):
            steps += [('R', i) for i in range(d - 1, 0, -1)]
        rule = tag.split(' path ')[0] + ': ranks follow the documented truncation rule (count of s_j/s_0 > theta, capped by max_rank of that bond)'
        if not ctx.sym:
            # reference sweep with NumPy on the same input
            ref = [np.array(c, dtype=complex) for c in cores]
            th = float(theta) if use_theta else 0.0
            for side, i in steps:
                c = ref[i]
                M = c.reshape(-1, c.shape[3]) if side == 'L' else c.reshape(c.shape[0], -1)
                u, s_, v = np.linalg.svd(M, full_matrices=False)
                r = int(np.sum(s_ / s_[0] > th)) if use_theta else len(s_)
                cap = (None if which == 'both' else bound[i + 1]) if side == 'L' else bound[i]
                if cap is not None and cap != np.inf:
                    r = min(r, cap)
                u, s_, v = u[:, :r], s_[:r], v[:r, :]
                if side == 'L':
                    ref[i] = u.reshape(c.shape[0], c.shape[1], c.shape[2], r)
                    ref[i + 1] = np.tensordot(np.diag(s_) @ v, ref[i + 1], axes=(1, 0))
                else:
                    ref[i] = v.reshape(r, c.shape[1], c.shape[2], c.shape[3])
                    p_ = ref[i - 1]
                    ref[i - 1] = (p_.reshape(-1, p_.shape[3]) @ u @ np.diag(s_)).reshape(p_.shape[0], p_.shape[1], p_.shape[2], r)
            exp_ranks = [1] + [ref[i].shape[3] for i in range(d - 1)] + [1]
            ok = ctx.check(rule, t.ranks == exp_ranks, detail='%s vs reference %s' % (t.ranks, exp_ranks))
            if ok:
                ctx.eq(tag.split(' path ')[0] + ': truncated tensor == reference TT-rounding', t.full(), D.tt_full(ctx, ref), tol=1e-7)
            return t.ranks
        from symtt import state
        calls = [c for c in state.S.stub_log if c.kind == 'svd']
        ctx.check(tag + ': one SVD per bond and sweep', len(calls) == len(steps))
        if len(calls) != len(steps):
            return t.ranks
        exp_ranks = list(shape['ranks'])
        for (side, i), call in zip(steps, calls):
            if side == 'L':
                exp_ranks[i + 1] = _kept(ctx, call, theta, use_theta, None if which == 'both' else bound[i + 1])
            else:
                exp_ranks[i] = _kept(ctx, call, theta, use_theta, bound[i])
        if not ctx.check(rule, t.ranks == exp_ranks, detail='%s vs documented rule %s' % (t.ranks, exp_ranks)):
            return t.ranks
        cur = list(cores)
        for (side, i), call in zip(steps, calls):
            k = call.s.shape[0]
            if side == 'L':
                ctx.eq(tag + ': left-sweep SVD argument at core %d' % i, call.a, cur[i].reshape(-1, cur[i].shape[3]))
                # rank actually kept at this step: read from the next SVD argument / final core
                r = _kept(ctx, call, theta, use_theta, None if which == 'both' else bound[i + 1])
                if which == 'both':
                    _cut_ok(ctx, tag + ' left sweep core %d (no max_rank in the left sweep of ortho)' % i, call, r, theta, use_theta, None)
                else:
                    _cut_ok(ctx, tag + ' core %d' % i, call, r, theta, use_theta, bound[i + 1])
                cur[i] = call.U[:, :r].reshape(cur[i].shape[0], cur[i].shape[1], cur[i].shape[2], r)
                SV = D.matmul(ctx, _diag(ctx, call.s[:r]), call.Vh[:r, :])
                cur[i + 1] = D.tensordot_dense(ctx, SV, [1], cur[i + 1], [0])
            else:
                ctx.eq(tag + ': right-sweep SVD argument at core %d' % i, call.a, cur[i].reshape(cur[i].shape[0], -1))
                r = _kept(ctx, call, theta, use_theta, bound[i])
                _cut_ok(ctx, tag + ' core %d' % i, call, r, theta, use_theta, bound[i])
                cur[i] = call.Vh[:r, :].reshape(r, cur[i].shape[1], cur[i].shape[2], cur[i].shape[3])
                US = D.matmul(ctx, call.U[:, :r], _diag(ctx, call.s[:r]))
                prev = cur[i - 1]
                cur[i - 1] = D.matmul(ctx, prev.reshape(-1, prev.shape[3]), US).reshape(prev.shape[0], prev.shape[1], prev.shape[2], r)
        for i in range(d):
            ctx.eq(tag + ': core %d == leading singular triplets / carried factor' % i, t.cores[i], cur[i])
        return t.ranks
    res = ctx.explore('ortho_%s truncated' % which, body)
    ctx.check('at least one feasible path', len(res) >= 1)


def _kept(ctx, call, theta, use_theta, cap):
    """number of singular values the documented rule keeps ON THIS PATH: count of s_j/s_0 > theta (decided by the
    explorer's path condition), then capped by max_rank"""
    from symtt.scalar import Sc
    s = [Sc.of(x) for x in call.s.plain()]
    k = len(s)
    r = k
    if use_theta:
        r = 0
        for j in range(k):
            if bool(s[j] / s[0] > theta):
                r += 1
    if cap is not None and cap != np.inf:
        r = min(r, cap)
    return r


# ------------------------------------------------------------------------ truncated_svd
@scenario('C04', 'truncated_svd', lambda tier: [{'m': m, 'n': n, 'rel': rel, 'use_theta': ut, 'max_rank': mr, 'cplx': c}
                                                 for (m, n) in ((2, 2), (2, 3), (3, 2), (3, 3), (1, 3), (4, 2))
                                                 for rel in (True, False) for ut in (False, True) for mr in (None, 1, 2) for c in (False, True)
                                                 if (ut or mr is not None) and not (tier == 'quick' and c and mr == 2)])
def truncated_svd(ctx, m, n, rel, use_theta, max_rank, cplx):
    """utils.truncated_svd: returns the leading singular triplets selected by the relative/absolute threshold, capped by max_rank"""
    utl = ctx.R.utl
    theta = _theta(ctx, use_theta)
    mr = np.inf if max_rank is None else max_rank

    def body():
        if ctx.sym:
            from symtt import state, lapack
            lapack.set_policy(lapack.FreePolicy(positive_spectrum='first'))
        A = ctx.input('A', (m, n), cplx)
        u, s, v = utl.truncated_svd(A, threshold=theta, max_rank=mr, rel_truncation=rel)
        r = s.shape[0]
        tag = 'truncated_svd path r=%d' % r
        ctx.check(tag + ': shapes', tuple(u.shape) == (m, r) and tuple(v.shape) == (r, n))
        if max_rank is not None:
            ctx.check(tag + ': r <= max_rank', r <= max_rank)
        if not ctx.sym:
            return r
        from symtt import state
        import z3
        from symtt.scalar import Sc, zterm
        call = [c for c in state.S.stub_log if c.kind == 'svd'][-1]
        ctx.eq(tag + ': SVD argument is the matrix', call.a, A)
        ctx.eq(tag + ': u == U[:, :r]', u, call.U[:, :r])
        ctx.eq(tag + ': s == s[:r]', s, call.s[:r])
        ctx.eq(tag + ': v == Vh[:r, :]', v, call.Vh[:r, :])
        if use_theta:
            sv = [zterm(Sc.of(x).re) for x in call.s.plain()]
            th = zterm(Sc.of(theta).re)
            ref = th * sv[0] if rel else th
            conds = [sv[j] > ref for j in range(r)]
            if not (max_rank is not None and r == max_rank):
                conds += [sv[j] <= ref for j in range(r, len(sv))]
            if conds:
                ctx.check(tag + ': kept above / discarded below the cut', z3.And(*conds), form='IV')
        return r
    res = ctx.explore('truncated_svd', body)
    ctx.check('at least one feasible path', len(res) >= 1)
