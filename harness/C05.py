"""C05 -- global SVD and pseudoinverse of a tensor train."""
import itertools

import numpy as np

from symtt.core import SkipTV, scenario
from symtt import dense as D
from .common import free_policy, all_shapes, pick, is_edge, mk_cores, meta_ok

META = {
    'explanation': 'TT.svd(index) and TT.pinv(index) on vector-type trains: (II) u . diag(s) . v contracts to the original tensor for '
                   'every valid factorisation returned by the internal SVDs (cut-point chain), every split index, ortho_l/ortho_r on/off; '
                   '(I) under fresh symbolic SVD outputs every core of u is reshape(U) of an SVD of the carried left unfolding (left '
                   'isometry by contract), every core of v is reshape(Vh) (first one: Vh times a right-orthonormal core), s is the '
                   'sorted non-negative vector of the middle SVD (leading part under threshold/max_rank, forked paths); pinv == u . '
                   'diag(1/s) . v with the same factors; (S) inputs unchanged unless overwrite, metadata consistent. pinv is run for all four combinations of the ortho flags; in concrete replays a switched-off flag is honoured by handing over a representation that is already orthonormal on that side (NumPy QR), and orthonormality of u, v, the singular values and the Moore-Penrose identity are then checked for every combination.',
    'bounds': {'quick': 'orders 2-4, row sizes {1,2}, col sizes 1, ranks {1,2,3}, all split indices, real and complex',
               'thorough': 'larger subset, row size 3'},
    'outside': ['"singular values coincide with those of the unfolding" and "equals the conjugate-transposed Moore-Penrose inverse" follow from '
                'orthonormal factors + uniqueness (linear algebra, not re-proved); what IS decided: the factors are the contract-orthonormal SVD '
                'outputs and multiply back to the tensor', 'floating-point rounding'],
    'assumptions': ['SVD contract (product, orthonormal factors, sorted non-negative s); s_last > 0 where pinv divides by s'],
    'replay_random': 10,
    'tv_per_scenario': {'quick': 2, 'thorough': 4},
}


def _grid(tier):
    shapes = all_shapes(orders=(2, 3), dims=(1, 2), ranks=(1, 2, 3), vector=True)
    sel = pick(shapes, 16 if tier == 'quick' else 70, lambda s: is_edge(s) and max(s['ranks']) == 3)
    sel.append({'rows': [2, 2, 1, 2], 'cols': [1, 1, 1, 1], 'ranks': [1, 2, 3, 2, 1]})
    if tier != 'quick':
        sel.append({'rows': [3, 2, 3], 'cols': [1, 1, 1], 'ranks': [1, 3, 3, 1]})
    out = []
    for i, s in enumerate(sel):
        d = len(s['rows'])
        for index in range(1, d):
            for (ol, orr) in ((True, True), (False, False), (True, False), (False, True)):
                if tier == 'quick' and (ol != orr) and i % 3:
                    continue
                for cplx in (False, True):
                    if tier == 'quick' and cplx and (i % 2 or ol != orr):
                        continue
                    out.append({'shape': s, 'index': index, 'ortho_l': ol, 'ortho_r': orr, 'cplx': cplx})
            if i % 4 == 0 or tier != 'quick':            # mixed dtypes per core
                for mask in ('first', 'last'):
                    out.append({'shape': s, 'index': index, 'ortho_l': True, 'ortho_r': True, 'cplx': mask})
    return out


def _diag(ctx, s, inv=False):
    k = s.shape[0]
    out = ctx.zeros((k, k))
    for i in range(k):
        x = D._get(s, (i,))
        D._set(out, (i, i), ctx.const_frac(1) / x if inv else x)
    return out


def _compose(ctx, ucores, mid, vcores):
    """dense value of u . mid . v  (u: open right rank, v: open left rank); shape rows.. + cols.."""
    A = D.tt_full_open(ctx, ucores)          # (1, rowsU.., colsU.., r)
    B = D.tt_full_open(ctx, vcores)          # (r', rowsV.., colsV.., 1)
    du, dv = len(ucores), len(vcores)
    A = A.reshape(A.shape[1:])               # rowsU colsU r
    B = B.reshape(B.shape[:-1])              # r' rowsV colsV
    AM = D.tensordot_dense(ctx, A, [A.ndim - 1], mid, [0])       # rowsU colsU r'
    R = D.tensordot_dense(ctx, AM, [AM.ndim - 1], B, [0])        # rowsU colsU rowsV colsV
    perm = list(range(du)) + list(range(2 * du, 2 * du + dv)) + list(range(du, 2 * du)) + list(range(2 * du + dv, 2 * du + 2 * dv))
    return R.transpose(perm)


def _pre_ortho(cores, index, left, right):
    """NumPy only: left-orthonormalise cores 0..index-2 and/or right-orthonormalise cores d-1..index of a core list (value unchanged)"""
    cs = [np.array(c) for c in cores]
    d = len(cs)
    if left:
        for i in range(0, index - 1):
            r, m, n, r2 = cs[i].shape
            q, rr = np.linalg.qr(cs[i].reshape(r * m * n, r2))
            cs[i] = q.reshape(r, m, n, q.shape[1])
            cs[i + 1] = np.tensordot(rr, cs[i + 1], axes=(1, 0))
    if right:
        for i in range(d - 1, index - 1, -1):
            r, m, n, r2 = cs[i].shape
            q, rr = np.linalg.qr(cs[i].reshape(r, m * n * r2).T)
            cs[i] = q.T.reshape(q.shape[1], m, n, r2)
            cs[i - 1] = np.tensordot(cs[i - 1], rr.T, axes=(3, 0))
    return cs


@scenario('C05', 'svd', _grid)
def svd(ctx, shape, index, ortho_l, ortho_r, cplx):
    """t.svd(index): product, factor structure, unchanged input, overwrite variant"""
    TT = ctx.R.TT
    d = len(shape['rows'])
    if ctx.mode == 'tv' and not (ortho_l and ortho_r):
        raise SkipTV()          # the plain concrete run works on a pre-orthonormalised representation (other ranks): outputs are not comparable
    ref = D.tt_full(ctx, mk_cores(ctx, 'a', shape, cplx))
    box = {}

    def run():
        cs = mk_cores(ctx, 'a', shape, cplx)
        if ctx.mode == 'conc':
            # a switched-off flag documents "that side is orthonormal already": hand over an admissible representation of the same tensor
            # (orthonormalised here with NumPy QR, independently of the code under test)
            cs = _pre_ortho(cs, index, not ortho_l, not ortho_r)
        t = TT(cs)
        box['ranks_in'] = list(t.ranks)
        u, s, v = t.svd(index, ortho_l=ortho_l, ortho_r=ortho_r)
        box.update(t=t, u=u, s=s, v=v)
        return _compose(ctx, u.cores, _diag(ctx, s), v.cores)
    ctx.chain('u . diag(s) . v == t', run, lambda: ref)
    t, u, s, v = box['t'], box['u'], box['s'], box['v']
    meta_ok(ctx, 'svd: u', u)
    meta_ok(ctx, 'svd: v', v)
    meta_ok(ctx, 'svd: input', t)
    ctx.check('svd: orders and dims', u.order == index and v.order == d - index and u.row_dims == shape['rows'][:index] and
              v.row_dims == shape['rows'][index:] and u.ranks[-1] == s.shape[0] == v.ranks[0])
    ctx.check('svd: input metadata unchanged', t.ranks == box['ranks_in'] and t.row_dims == shape['rows'])
    if not ctx.sym:
        U = np.asarray(D.tt_full_open(ctx, u.cores)).reshape(-1, s.shape[0])
        V = np.asarray(D.tt_full_open(ctx, v.cores)).reshape(s.shape[0], -1)
        if ctx.mode == 'conc' or ortho_l:
            ctx.eq('svd: u has orthonormal columns', U.conj().T @ U, np.eye(s.shape[0]), tol=1e-9)
        if ctx.mode == 'conc' or ortho_r:
            ctx.eq('svd: v has orthonormal rows', V @ V.conj().T, np.eye(s.shape[0]), tol=1e-9)
        ctx.check('svd: s sorted and non-negative', bool(np.all(np.diff(s) <= 1e-12) and np.all(s >= 0)))
        if ctx.mode == 'conc' or (ortho_l and ortho_r):
            sv = np.linalg.svd(np.asarray(ctx._num(ref)).reshape(int(np.prod(shape['rows'][:index])), -1), compute_uv=False)
            k = min(len(sv), len(s))
            ctx.eq('svd: singular values == those of the unfolding', np.sort(np.asarray(s))[::-1][:k], sv[:k], tol=1e-8)
        ctx.eq('svd: input value unchanged', t.full(), ref)
        return
    # ---- structure under fresh SVD outputs
    from symtt import state, lapack
    free_policy(ctx)
    cores = mk_cores(ctx, 'a', shape, cplx)
    t = TT(mk_cores(ctx, 'a', shape, cplx))
    u, s, v = t.svd(index, ortho_l=ortho_l, ortho_r=ortho_r)
    ctx.eq('svd: input value unchanged', t.full(), ref)
    calls = [c for c in state.S.stub_log if c.kind == 'svd']
    nl = (index - 1) if ortho_l else 0
    nr = (d - index) if ortho_r else 0
    ctx.check('svd: %d left + %d right + 1 middle SVD calls' % (nl, nr), len(calls) == nl + nr + 1)
    if len(calls) != nl + nr + 1:
        return
    cur = list(cores)
    ci = 0
    for i in range(nl):                               # left sweep 0 .. index-2
        call = calls[ci]; ci += 1
        ctx.eq('svd: left-sweep SVD argument at core %d' % i, call.a, cur[i].reshape(-1, cur[i].shape[3]))
        k = call.U.shape[1]
        cur[i] = call.U.reshape(cur[i].shape[0], cur[i].shape[1], cur[i].shape[2], k)
        SV = D.matmul(ctx, _diag(ctx, call.s), call.Vh)
        cur[i + 1] = D.tensordot_dense(ctx, SV, [1], cur[i + 1], [0])
    for i in range(d - 1, d - 1 - nr, -1):            # right sweep d-1 .. index
        call = calls[ci]; ci += 1
        ctx.eq('svd: right-sweep SVD argument at core %d' % i, call.a, cur[i].reshape(cur[i].shape[0], -1))
        k = call.Vh.shape[0]
        cur[i] = call.Vh.reshape(k, cur[i].shape[1], cur[i].shape[2], cur[i].shape[3])
        US = D.matmul(ctx, call.U, _diag(ctx, call.s))
        prev = cur[i - 1]
        cur[i - 1] = D.matmul(ctx, prev.reshape(-1, prev.shape[3]), US).reshape(prev.shape[0], prev.shape[1], prev.shape[2], k)
    mid = calls[ci]
    c = cur[index - 1]
    ctx.eq('svd: middle SVD argument == left unfolding of core index-1', mid.a, c.reshape(c.shape[0] * c.shape[1], c.shape[3]))
    k = mid.s.shape[0]
    cur[index - 1] = mid.U.reshape(c.shape[0], c.shape[1], 1, k)
    cur[index] = D.tensordot_dense(ctx, mid.Vh, [1], cur[index], [0])
    ctx.eq('svd: s is the singular-value vector of the middle SVD', s, mid.s)
    for i in range(index):
        ctx.eq('svd: u core %d == reshape(U) of its SVD (left isometry by contract%s)' % (i, '' if (ortho_l or i == index - 1) else '; ortho_l off: input core'),
               u.cores[i], cur[i])
    for i in range(index, d):
        ctx.eq('svd: v core %d == %s' % (i - index, 'Vh_mid . core' if i == index else 'reshape(Vh) of its SVD'), v.cores[i - index], cur[i])
    # overwrite variant: works on self
    free_policy(ctx)
    t2 = TT(mk_cores(ctx, 'a', shape, cplx))
    u2, s2, v2 = t2.svd(index, ortho_l=ortho_l, ortho_r=ortho_r, overwrite=True)
    meta_ok(ctx, 'svd(overwrite=True): self', t2)
    for i in range(d):
        ctx.eq('svd(overwrite=True): self core %d == the factor cores' % i, t2.cores[i], (u2.cores + v2.cores)[i])


@scenario('C05', 'pinv', _grid)
def pinv(ctx, shape, index, ortho_l, ortho_r, cplx):
    """t.pinv(index) == u . diag(1/s) . v with the factors of t.svd(index); input unchanged"""
    TT = ctx.R.TT
    d = len(shape['rows'])
    if ctx.mode == 'tv' and not (ortho_l and ortho_r):
        raise SkipTV()
    ref = D.tt_full(ctx, mk_cores(ctx, 'a', shape, cplx))
    if not ctx.sym:
        cs = mk_cores(ctx, 'a', shape, cplx)
        if ctx.mode == 'conc':
            cs = _pre_ortho(cs, index, not ortho_l, not ortho_r)      # switched-off flags: admissible (already orthonormal) representation
        t = TT(cs)
        p = t.pinv(index, ortho_l=ortho_l, ortho_r=ortho_r)
        meta_ok(ctx, 'pinv', p)
        ctx.eq('pinv: input value unchanged', t.full(), ref)
        if ctx.mode == 'conc' or (ortho_l and ortho_r):
            M = np.asarray(ctx._num(ref)).reshape(int(np.prod(shape['rows'][:index])), -1)
            s = np.linalg.svd(M, compute_uv=False)
            if s[-1] / s[0] > 1e-6:
                ctx.eq('pinv == conj(transpose(Moore-Penrose pseudoinverse of the unfolding))', np.asarray(p.full()).reshape(M.shape),
                       np.linalg.pinv(M).T.conj(), tol=1e-6)
        return
    from symtt import state, lapack
    free_policy(ctx)
    t = TT(mk_cores(ctx, 'a', shape, cplx))
    u, s, v = t.svd(index, ortho_l=ortho_l, ortho_r=ortho_r)
    n_svd = len(state.S.stub_log)
    free_policy(ctx)       # same call sequence => same factor symbols
    t2 = TT(mk_cores(ctx, 'a', shape, cplx))
    p = t2.pinv(index, ortho_l=ortho_l, ortho_r=ortho_r)
    ctx.check('pinv: same SVD call sequence as svd()', len(state.S.stub_log) == n_svd)
    meta_ok(ctx, 'pinv', p)
    nz = [D._get(s, (i,)).re != 0 for i in range(s.shape[0])]
    ctx.eq('pinv == u . diag(1/s) . v', p.full(), _compose(ctx, u.cores, _diag(ctx, s, inv=True), v.cores), extra_assumptions=nz)
    ctx.eq('pinv: input value unchanged', t2.full(), ref)
    ctx.check('pinv: input metadata unchanged', t2.ranks == shape['ranks'])


def _trunc_grid(tier):
    out = []
    for p in _grid(tier):
        if not (p['ortho_l'] and p['ortho_r']) or p['cplx']:
            continue
        if max(p['shape']['ranks']) < 2:
            continue
        for mr in (None, 1, 2):
            out.append(dict(p, max_rank=mr))
    return out[:40] if tier == 'quick' else out


@scenario('C05', 'svd_truncated', _trunc_grid)
def svd_truncated(ctx, shape, index, ortho_l, ortho_r, cplx, max_rank):
    """t.svd(index, threshold=theta, max_rank=r): on every path s is a leading part of the middle spectrum, rank bounded"""
    TT = ctx.R.TT
    theta = ctx.scalar('theta', lo=(0,), hi=(1,))
    mr = np.inf if max_rank is None else max_rank

    def body():
        if ctx.sym:
            from symtt import state, lapack
            lapack.set_policy(lapack.FreePolicy(positive_spectrum='first'))
        t = TT(mk_cores(ctx, 'a', shape, cplx))
        u, s, v = t.svd(index, threshold=theta, max_rank=mr)
        r = s.shape[0]
        tag = 'svd(theta,max_rank=%s) path ranks u=%s v=%s' % (max_rank, u.ranks, v.ranks)
        meta_ok(ctx, tag + ' u', u)
        meta_ok(ctx, tag + ' v', v)
        ctx.check(tag + ': bond ranks agree', u.ranks[-1] == r == v.ranks[0])
        if max_rank is not None:
            ctx.check(tag + ': every rank <= max_rank', all(x <= max_rank for x in u.ranks[1:] + v.ranks[:-1]))
        if ctx.mode == 'conc':
            # replays: every returned singular value lies above the relative cut (the sweeps before the middle SVD truncate too, so the returned
            # values are those of a slightly truncated tensor: comparing them with the spectrum of the original unfolding would be unsound)
            sn = np.asarray(s, dtype=float)
            ctx.check('svd(theta, max_rank): every returned singular value is above the relative cut', bool(np.all(sn / sn[0] > float(theta))),
                      detail='%s, theta %.4f' % ((sn / sn[0]).tolist(), float(theta)))
        if ctx.sym:
            from symtt import state
            mid = [c for c in state.S.stub_log if c.kind == 'svd'][-1]
            ctx.eq(tag + ': s == leading %d singular values of the middle SVD' % r, s, mid.s[:r])
            ctx.eq(tag + ': last core of u == leading columns of U', u.cores[-1].reshape(-1, r), mid.U[:, :r])
            from .C04 import _cut_ok
            _cut_ok(ctx, tag + ' middle SVD', mid, r, theta, True, max_rank)
        return r
    res = ctx.explore('svd truncated', body)
    ctx.check('at least one feasible path', len(res) >= 1)


# ------------------------------------------------------------------ pinv with a relative cut
def _ptrunc_grid(tier):
    shapes = [({'rows': [2, 2], 'cols': [1, 1], 'ranks': [1, 2, 1]}, 1),
              ({'rows': [2, 2, 2], 'cols': [1, 1, 1], 'ranks': [1, 2, 2, 1]}, 1),
              ({'rows': [2, 2, 2], 'cols': [1, 1, 1], 'ranks': [1, 2, 2, 1]}, 2),
              ({'rows': [3, 2], 'cols': [1, 1], 'ranks': [1, 2, 1]}, 1)]
    if tier != 'quick':
        shapes += [({'rows': [3, 3], 'cols': [1, 1], 'ranks': [1, 3, 1]}, 1), ({'rows': [2, 1, 2], 'cols': [1, 1, 1], 'ranks': [1, 2, 2, 1]}, 2)]
    return [{'shape': sh, 'index': ix, 'scale': sc} for sh, ix in shapes for sc in (1, 64)]


@scenario('C05', 'pinv_truncated', _ptrunc_grid)
def pinv_truncated(ctx, shape, index, scale):
    """t.pinv(index, threshold=theta) == u . diag(1/s) . v with the factors kept by t.svd(index, threshold=theta) (the relative cut), on every path
    of a symbolic threshold; entries of the train divided by `scale` (small-amplitude data: relative and absolute cuts differ)"""
    TT = ctx.R.TT
    theta = ctx.scalar('theta', lo=(0,), hi=(1,))
    label = 'pinv(threshold=theta) == u . diag(1/s) . v with the triplets kept by svd(threshold=theta)'

    def cores():
        cs = mk_cores(ctx, 'a', shape, False)
        cs[0] = cs[0] * (ctx.const_frac(1, scale) if ctx.sym else 1.0 / scale)
        return cs

    if not ctx.sym:
        if ctx.mode == 'tv':
            from symtt.core import SkipTV
            raise SkipTV()
        t = TT(cores())
        u, s, v = t.svd(index, threshold=theta)
        p = TT(cores()).pinv(index, threshold=theta)
        ok = p.ranks[index] == s.shape[0]
        ctx.check(label, bool(ok and np.allclose(np.asarray(p.full()), np.asarray(_compose(ctx, u.cores, _diag(ctx, s, inv=True), v.cores)),
                                                  rtol=1e-7, atol=1e-9 * float(np.max(1 / np.asarray(s))))))
        return

    def body():
        from symtt import state, lapack
        ex = state.S.explorer
        state.reset(); state.S.explorer = ex
        lapack.set_policy(lapack.FreePolicy(positive_spectrum='first'))
        t = TT(cores())
        u, s, v = t.svd(index, threshold=theta)
        state.reset(); state.S.explorer = ex
        for a in ctx.assumptions:
            ex.assume(a)
        lapack.set_policy(lapack.FreePolicy(positive_spectrum='first'))
        p = TT(cores()).pinv(index, threshold=theta)
        r = s.shape[0]
        meta_ok(ctx, 'pinv(theta) rank %d' % r, p)
        with ctx.group(label):
            ctx.check('bond rank of pinv == number of kept singular values (path rank %d)' % r, p.ranks[index] == r)
            if p.ranks[index] == r:
                nz = [D._get(s, (i,)).re != 0 for i in range(r)]
                ctx.eq('pinv == u . diag(1/s) . v (path rank %d)' % r, p.full(), _compose(ctx, u.cores, _diag(ctx, s, inv=True), v.cores), extra_assumptions=nz)
        return r
    res = ctx.explore('pinv truncated', body, cap=64)
    ctx.check('at least one feasible path', len(res) >= 1)
