"""C06 -- operands keep their value: no hidden mutation or aliasing across calls."""
import itertools

import numpy as np

from symtt.core import scenario, HarnessError
from symtt import dense as D
from .common import mk_cores

META = {
    'explanation': 'Bounded HISTORIES over a pool of live tensor trains (one operator, two vectors; shapes with rank-1 bonds and size-1 '
                   'modes where LAPACK works in place, and a generic shape): a value-returning operation P, optionally a second one fed '
                   'with the result, then an in-place operation Q (orthonormalisation, truncation, overwrite variants) on any live object. '
                   'After every step the solver decides, for every live object other than the one documented to change, that its dense '
                   'value (index-loop contraction of its CURRENT cores) is identical to the value recorded when it was created -- for all '
                   'entry values AND all junk a LAPACK routine may leave in a buffer it overwrites (in-place model calibrated against the '
                   'real SciPy at start-up); metadata/core-shape consistency of every returned train is checked on the way. Scenario routines: one call of each '
                   'solver / integrator / data-driven routine (sle.als/mals, evp.als with 1 and 2 eigenpairs, power_method, explicit/implicit Euler, '
                   'trapezoidal, HOD with and without previous_value, TDVP 1/2-site, Krylov, the four splitting schemes, errors_*, tdmd, AMUSEt, ARR, MANDy, '
                   'tgEDMD) on symbolic arguments under fresh symbolic LAPACK outputs: every tensor-train argument keeps value and metadata, every returned '
                   'train is consistent, and ortho_left()/ortho_right() on one returned train leaves the arguments and all other returned trains unchanged. stateless: each of 18 routines called with arguments that were used in an earlier call and then changed in place (cores replaced) returns what it returns for fresh objects holding the new values -- no memoised intermediate, module-level cache or default-argument list survives a call. Over-parameterised arguments (rank 3 on modes of size 2), which any orthonormalisation of the caller\'s object would shrink, are part of the routines grid.',
    'bounds': {'quick': 'pool shapes {[2,1,2] with ranks [1,1,2,1] / operator ranks [1,2,1,1]} and {[2,2] ranks [1,2,1]}; all histories P;Q '
                        '(~35 P x 12 Q x every live target); real data',
               'thorough': 'additionally all histories P1;P2;Q with P2 consuming the result of P1, complex data, a third pool shape'},
    'outside': ['routines scenario: order 2, mode size 2, ranks {1,2} (over-parameterised rank 3 for previous_value), one step / one sweep, real data; hocur-based routines (C15 checks their inputs)',
                'histories longer than 3', 'floating-point rounding'],
    'assumptions': ['SciPy overwrites an input buffer only in the (routine, memory layout, dtype) combinations measured by the calibration run'],
    'tv_per_scenario': {'quick': 1, 'thorough': 1},
    'timeout_ms': {'quick': 60000, 'thorough': 120000},
}

POOLS = {
    'edge': {'x': {'rows': [2, 1, 2], 'cols': [1, 1, 1], 'ranks': [1, 1, 2, 1]},
             'y': {'rows': [2, 1, 2], 'cols': [1, 1, 1], 'ranks': [1, 2, 1, 1]},
             'A': {'rows': [2, 1, 2], 'cols': [2, 1, 2], 'ranks': [1, 2, 1, 1]}},
    'generic': {'x': {'rows': [2, 2], 'cols': [1, 1], 'ranks': [1, 2, 1]},
                'y': {'rows': [2, 2], 'cols': [1, 1], 'ranks': [1, 2, 1]},
                'A': {'rows': [2, 2], 'cols': [2, 2], 'ranks': [1, 2, 1]}},
    'rank1': {'x': {'rows': [2, 2, 2], 'cols': [1, 1, 1], 'ranks': [1, 1, 1, 1]},
              'y': {'rows': [2, 2, 2], 'cols': [1, 1, 1], 'ranks': [1, 2, 2, 1]},
              'A': {'rows': [2, 2, 2], 'cols': [2, 2, 2], 'ranks': [1, 1, 1, 1]}},
}


# ------------------------------------------------------------------ operations
def _pure_ops(ctx):
    """name -> function(pool) -> list of results (TT objects or other values).  Must not change any pool object."""
    tt = ctx.R.tt

    def M(ctx, shape, name):
        return ctx.input(name, shape, False)
    ops = {}
    ops['x + y'] = lambda p: [p['x'] + p['y']]
    ops['x - y'] = lambda p: [p['x'] - p['y']]
    ops['2 * x'] = lambda p: [2 * p['x']]
    ops['x * 2'] = lambda p: [p['x'] * 2]
    ops['A @ x'] = lambda p: [p['A'] @ p['x']]
    ops['A.dot(A)'] = lambda p: [p['A'].dot(p['A'])]
    for mode in ('last-first', 'last-last', 'first-last', 'first-first'):
        for k in (1, 2):
            ops['x.tensordot(y,%d,%s)' % (k, mode)] = (lambda mode, k: lambda p: [p['x'].tensordot(p['y'], k, mode=mode)])(mode, k)
    ops['x.tensordot(y, order)'] = lambda p: [p['x'].tensordot(p['y'], p['x'].order, mode='last-first')]
    ops['A.tensordot(A,1,last-first)'] = lambda p: [p['A'].tensordot(p['A'], 1, mode='last-last')]
    ops['x.rank_tensordot(M,last)'] = lambda p: [p['x'].rank_tensordot(M(ctx, (1, 2), 'Ml'), mode='last')]
    ops['x.rank_tensordot(M,first)'] = lambda p: [p['x'].rank_tensordot(M(ctx, (2, 1), 'Mf'), mode='first')]
    ops['x.concatenate(y)'] = lambda p: [p['x'].concatenate(p['y'])]
    ops['x.concatenate(list)'] = lambda p: [p['x'].concatenate([c.copy() for c in p['y'].cores])]
    ops['A.transpose()'] = lambda p: [p['A'].transpose()]
    ops['A.transpose(conjugate)'] = lambda p: [p['A'].transpose(conjugate=True)]
    ops['A.transpose(cores=[0])'] = lambda p: [p['A'].transpose(cores=[0])]
    ops['x.conj()'] = lambda p: [p['x'].conj()]
    ops['x.rank_transpose()'] = lambda p: [p['x'].rank_transpose()]
    ops['x.copy()'] = lambda p: [p['x'].copy()]
    ops['x.norm(2)'] = lambda p: [p['x'].norm(p=2)]
    ops['A.norm(2)'] = lambda p: [p['A'].norm(p=2)]
    ops['A.norm(1)'] = lambda p: [p['A'].norm(p=1)]
    ops['x.diag([0])'] = lambda p: [p['x'].diag([0])]
    ops['x.diag(all)'] = lambda p: [p['x'].diag(list(range(p['x'].order)))]
    ops['x.squeeze()'] = lambda p: [p['x'].squeeze()]
    ops['A.squeeze()'] = lambda p: [p['A'].squeeze()]
    ops['x.tt2qtt'] = lambda p: [p['x'].tt2qtt([[m, 1] for m in p['x'].row_dims], [[1, 1]] * p['x'].order)]
    ops['x.qtt2tt'] = lambda p: [p['x'].qtt2tt([1] * (p['x'].order - 2) + [2] if p['x'].order >= 2 else [1])]
    ops['x.svd(1)'] = lambda p: list(p['x'].svd(1))
    ops['x.svd(1, no ortho)'] = lambda p: list(p['x'].svd(1, ortho_l=False, ortho_r=False))
    ops['x.pinv(1)'] = lambda p: [p['x'].pinv(1)]
    ops['residual_error(A,x,y)'] = lambda p: [tt.residual_error(p['A'], p['x'], p['y'])]
    ops['x.full()/matricize/element'] = lambda p: [p['x'].full(), p['A'].matricize(), p['x'].element([0] * (2 * p['x'].order))]
    ops['TT(x.cores list)'] = lambda p: [ctx.R.TT([c.copy() for c in p['x'].cores])]
    ops['x.ortho_left() (returns self)'] = lambda p: [p['x'].copy().ortho_left()]
    return ops


def _inplace_ops(ctx):
    """name -> function(target, pool): documented to modify target (and only target)"""
    def M(shape, name):
        return ctx.input(name, shape, False)
    ops = {}
    ops['ortho_left()'] = lambda t, p: t.ortho_left()
    ops['ortho_right()'] = lambda t, p: t.ortho_right()
    ops['ortho()'] = lambda t, p: t.ortho()
    ops['ortho(max_rank=1)'] = lambda t, p: t.ortho(max_rank=1)
    ops['ortho_left(0,0)'] = lambda t, p: t.ortho_left(start_index=0, end_index=0)
    ops['transpose(overwrite)'] = lambda t, p: t.transpose(overwrite=True)
    ops['conj(overwrite)'] = lambda t, p: t.conj(overwrite=True)
    ops['rank_transpose(overwrite)'] = lambda t, p: t.rank_transpose(overwrite=True)
    ops['rank_tensordot(overwrite)'] = lambda t, p: t.rank_tensordot(M((t.ranks[-1], 2), 'Mo%d' % t.ranks[-1]), mode='last', overwrite=True)
    ops['concatenate(y.copy(), overwrite)'] = lambda t, p: t.concatenate(p['y'].copy(), overwrite=True)
    ops['tensordot(y,1,overwrite)'] = lambda t, p: t.tensordot(p['y'], 1, mode='last-first', overwrite=True)
    ops['svd(1,overwrite)'] = lambda t, p: t.svd(1, overwrite=True)
    return ops


# ---------------------------------------------------------------- bookkeeping
def _open_full(ctx, t):
    return D.tt_full_open(ctx, list(t.cores))


def _meta(t):
    return (t.order, list(t.row_dims), list(t.col_dims), list(t.ranks))


def _consistent(t):
    if not (t.order == len(t.cores) == len(t.row_dims) == len(t.col_dims) == len(t.ranks) - 1):
        return False
    return all(tuple(t.cores[i].shape) == (t.ranks[i], t.row_dims[i], t.col_dims[i], t.ranks[i + 1]) for i in range(t.order))


class Live(object):
    def __init__(self, name, obj, ctx):
        self.name, self.obj = name, obj
        self.value = _open_full(ctx, obj)
        self.meta = _meta(obj)


def _fresh_pool(ctx, pool, cplx):
    TT = ctx.R.TT
    objs = {k: TT(mk_cores(ctx, k, POOLS[pool][k], cplx)) for k in ('x', 'y', 'A')}
    return objs


def _setup_policy(ctx):
    if ctx.sym:
        from symtt import state, lapack
        tab = getattr(ctx, '_ow_table', None)
        if tab is None:
            tab = ctx._ow_table = lapack.calibrate_overwrite()
        state.reset()
        lapack.set_policy(lapack.FreePolicy(assume_sorted_spectrum=False, model_overwrite=True, overwrite_table=tab))


def _check_all(ctx, tag, lives, exempt):
    TT = ctx.R.TT
    ok = True
    for l in lives:
        if any(l.obj is e for e in exempt):
            continue
        if not _consistent(l.obj):
            ctx.fail(tag + ': %s left with inconsistent metadata' % l.name, repr((_meta(l.obj), [tuple(c.shape) for c in l.obj.cores])))
            ok = False
            continue
        if _meta(l.obj) != l.meta:
            ctx.fail(tag + ': metadata of %s changed' % l.name, '%s -> %s' % (l.meta, _meta(l.obj)))
            ok = False
            continue
        ok &= ctx.eq(tag + ': value of %s unchanged' % l.name, _open_full(ctx, l.obj), l.value)
    return ok


def _applicable(fn, *a):
    """run an operation; argument-validation errors mean the history is not admissible"""
    try:
        return True, fn(*a)
    except (ValueError, IndexError) as e:
        msg = str(e)
        if any(s in msg for s in ('do not match', 'too big', 'have to be 1', 'index', 'cannot reshape', 'out of range', 'out of bounds', 'must be', 'same dimensions', 'Dimensions')):
            return False, None
        raise


def _history(ctx, pool, cplx, pnames, qname, target_sel):
    """run P1 [; P2] ; Q(target) and check every live object after every step.  Returns False if not admissible."""
    TT = ctx.R.TT
    pure = _pure_ops(ctx)
    inpl = _inplace_ops(ctx)
    _setup_policy(ctx)
    p = _fresh_pool(ctx, pool, cplx)
    lives = [Live(k, p[k], ctx) for k in ('x', 'y', 'A')]
    tag = ' ; '.join(pnames)
    last = []
    for step, pn in enumerate(pnames):
        pp = dict(p)
        if step > 0:
            if not last:
                return False
            pp['x'] = last[0]          # P2 consumes the result of P1 in the role of x
            # binary operations need an operand of x's shape with boundary ranks 1 (an admissible call); anything else is argument misuse
            r, x0 = last[0], p['x']
            same = (r.order == x0.order and list(r.row_dims) == list(x0.row_dims) and list(r.col_dims) == list(x0.col_dims)
                    and r.ranks[0] == 1 and r.ranks[-1] == 1)
            import re as _re
            binary = bool(_re.search(r'\by\b|\bA\b|\(M,', pn))
            if binary and not same:
                return False
        ok, res = _applicable(pure[pn], pp)
        if not ok:
            return False
        last = []
        for j, r in enumerate(res):
            if isinstance(r, TT):
                if any(r is l.obj for l in lives):
                    continue            # handed back by identity: counts as that argument
                if not _consistent(r):
                    ctx.fail('%s: returned train #%d has inconsistent metadata' % (pn, j), repr((_meta(r), [tuple(c.shape) for c in r.cores])))
                    return True
                lives.append(Live('result%d.%d' % (step, j), r, ctx))
                last.append(r)
        _check_all(ctx, '[%s] after step %d' % (tag, step), lives, [])
    if qname is None:
        return True
    if target_sel.startswith('result#'):
        j = int(target_sel.split('#')[1])
        targets = [l for l in lives if l.name.startswith('result%d.' % (len(pnames) - 1))]
        targets = targets[j:j + 1]
    else:
        targets = [l for l in lives if l.name == target_sel]
    if not targets:
        return False
    tl = targets[0]
    ok, _ = _applicable(inpl[qname], tl.obj, p)
    if not ok:
        return False
    if not _consistent(tl.obj):
        ctx.fail('[%s ; %s on %s]: target left with inconsistent metadata' % (tag, qname, tl.name),
                 repr((_meta(tl.obj), [tuple(c.shape) for c in tl.obj.cores])))
    _check_all(ctx, '[%s ; %s on %s]' % (tag, qname, tl.name), lives, [tl.obj])
    return True


# --------------------------------------------------------------------- scenarios
def _grid2(tier):
    import types
    names = list(_pure_ops(types.SimpleNamespace(R=types.SimpleNamespace(tt=None, TT=None), input=None)).keys())
    out = []
    pools = ['edge', 'generic'] if tier == 'quick' else ['edge', 'generic', 'rank1']
    for pool in pools:
        for pn in names:
            for cplx in ((False,) if tier == 'quick' else (False, True)):
                out.append({'pool': pool, 'p': pn, 'cplx': cplx})
    return out


@scenario('C06', 'history2', _grid2)
def history2(ctx, pool, p, cplx):
    """all histories  P ; Q(target)  for one P: Q ranges over every in-place operation, target over the result(s) and every operand"""
    import types
    qnames = list(_inplace_ops(ctx).keys())
    n = 0
    # P alone (operands unchanged by a value-returning call)
    if _history(ctx, pool, cplx, [p], None, None):
        n += 1
    for q in qnames:
        for target in ('result#0', 'result#1', 'x', 'y', 'A'):
            if _history(ctx, pool, cplx, [p], q, target):
                n += 1
    ctx.notes.append('%d admissible histories' % n)


def _grid3(tier):
    if tier == 'quick':
        sel = ['x + y', 'x.tensordot(y,1,last-first)', 'x.concatenate(y)', 'x.diag([0])', 'x.squeeze()', 'x.svd(1)', '2 * x', 'x.conj()']
        sel2 = ['x.tensordot(y,1,last-first)', 'x.concatenate(y)', 'x.copy()', 'x.rank_transpose()', 'x + y', 'x.diag([0])', 'x.squeeze()']
        return [{'pool': 'edge', 'p1': a, 'p2': b, 'cplx': False} for a in sel for b in sel2]
    import types
    names = list(_pure_ops(types.SimpleNamespace(R=types.SimpleNamespace(tt=None, TT=None), input=None)).keys())
    out = []
    for pool in ('edge', 'generic'):
        for a in names:
            for b in names:
                if 'norm' in a or 'residual' in a or 'full()' in a:
                    continue
                out.append({'pool': pool, 'p1': a, 'p2': b, 'cplx': False})
    return out


@scenario('C06', 'history3', _grid3)
def history3(ctx, pool, p1, p2, cplx):
    """histories  P1 ; P2(result of P1 as x) ; Q(target)"""
    qnames = ['ortho_left()', 'ortho_right()', 'ortho(max_rank=1)', 'transpose(overwrite)', 'rank_transpose(overwrite)',
              'tensordot(y,1,overwrite)', 'svd(1,overwrite)']
    n = 0
    if not _history(ctx, pool, cplx, [p1, p2], None, None):
        ctx.notes.append('history not admissible')
        ctx.held('history %s ; %s not admissible (argument validation)' % (p1, p2))
        return
    for q in qnames:
        for target in ('result#0', 'x', 'y'):
            if _history(ctx, pool, cplx, [p1, p2], q, target):
                n += 1
    ctx.notes.append('%d admissible histories' % (n + 1))


# ------------------------------------------------------------------ routines
ROUTINES = ['sle.als', 'sle.mals', 'evp.als nev=1', 'evp.als nev=2', 'evp.power_method', 'ode.explicit_euler', 'ode.implicit_euler', 'ode.trapezoidal_rule',
            'ode.hod', 'ode.hod previous_value', 'ode.tdvp1site', 'ode.tdvp2site', 'ode.krylov', 'ode.strang_splitting', 'tdmd_exact', 'tdmd_standard',
            'tedmd.amuset_hosvd batch', 'regression.arr', 'regression.mandy_cm', 'regression.mandy_fm', 'ode.lie_splitting', 'ode.yoshida_splitting',
            'ode.kahan_li_splitting', 'tgedmd.amuset_hosvd', 'ode.errors_expl_euler', 'ode.errors_impl_euler',
            'ode.errors_trapezoidal']


# routines that accept an over-parameterised state (rank 3 on modes of size 2); the alternating solvers do not -- their micro systems would be singular
RANK3_ROUTINES = ('ode.explicit_euler', 'ode.hod', 'ode.hod previous_value', 'ode.tdvp1site', 'ode.tdvp2site', 'ode.krylov', 'ode.strang_splitting',
                  'ode.lie_splitting', 'ode.yoshida_splitting', 'ode.kahan_li_splitting', 'tdmd_exact', 'tdmd_standard', 'ode.errors_expl_euler')


def _order_eig_policy(ctx):
    """FreePolicy + in-place model + eigenvalues with a fixed strict order (no path explosion in argsort)"""
    from symtt import lapack, state
    from symtt.scalar import Sc
    from .common import _OW
    if 'tab' not in _OW:
        _OW['tab'] = lapack.calibrate_overwrite()

    class P(lapack.FreePolicy):
        real_spectrum = True
        assume_sorted_spectrum = True
        positive_spectrum = True

        def eig(self, A, B=None, hermitian=False, k=None):
            lam, V = lapack.FreePolicy.eig(self, A, B, hermitian, k)
            n = lam.shape[0]
            for j in range(n - 1):
                state.assume(Sc.of(lam.plain()[j]) > Sc.of(lam.plain()[j + 1]) + 1)
            state.assume(Sc.of(lam.plain()[n - 1]) > 2)
            return lam, V
    return P(model_overwrite=True, overwrite_table=_OW['tab'])


@scenario('C06', 'routines', lambda tier: [{'routine': r, 'rank': k, 'then': q, 'order': o} for o in ((2,) if tier == 'quick' else (2, 3)) for r in ROUTINES for k in (2, 1, 3)
                                         for q in ('ortho_left()', 'ortho_right()') if not (k == 3 and (q == 'ortho_left()' or r not in RANK3_ROUTINES or o != 2))])
                                         # rank 3 on modes of size 2: an over-parameterised argument, which any orthonormalisation of the caller's object would shrink
def routines(ctx, routine, rank, then, order=2):
    """one call of a solver / integrator / data-driven routine, then one in-place operation on each returned train: every argument and every other
    returned train keeps value and metadata; every returned train is consistent"""
    TT = ctx.R.TT
    R = ctx.R
    if ctx.mode == 'tv':
        from symtt.core import SkipTV
        raise SkipTV()
    dims = [2] * order
    sA = {'rows': dims, 'cols': dims, 'ranks': [1] * (order + 1)}
    sx = {'rows': dims, 'cols': [1] * order, 'ranks': [1] + [rank] * (order - 1) + [1]}
    sy = {'rows': dims, 'cols': [1] * order, 'ranks': [1] + [3 if routine == 'ode.hod previous_value' else rank] * (order - 1) + [1]}

    def body():
        from .C15 import _funcs
        if ctx.sym:
            from symtt import state, lapack
            ex = state.S.explorer
            state.reset(); state.S.explorer = ex
            for a in ctx.assumptions:
                ex.assume(a)
            lapack.set_policy(_order_eig_policy(ctx))
        C = TT(mk_cores(ctx, 'A', sA, False))
        A = C + C.transpose()
        x = TT(mk_cores(ctx, 'x', sx, False))
        y = TT(mk_cores(ctx, 'y', sy, False))
        args = {'A': A, 'x': x, 'y': y}
        h = ctx.scalar('h', lo=(0,))
        outs = []
        if routine == 'sle.als':
            outs = [R.sle.als(A, x, y, repeats=1)]
        elif routine == 'sle.mals':
            outs = [R.sle.mals(A, x, y, repeats=1, threshold=0)]
        elif routine == 'evp.als nev=1':
            ev, et, _ = R.evp.als(A, x, number_ev=1, repeats=1, sigma=1)
            outs = [et]
        elif routine == 'evp.als nev=2':
            ev, et, _ = R.evp.als(A, x, number_ev=2, repeats=1, sigma=1)
            outs = list(et)
        elif routine == 'evp.power_method':
            ev, et = R.evp.power_method(A, x, repeats=1, sigma=ctx.scalar('sigma'))
            outs = [et]
        elif routine == 'ode.explicit_euler':
            outs = R.ode.explicit_euler(A, x, [h, h], threshold=0, max_rank=50, normalize=0, progress=False)
        elif routine == 'ode.implicit_euler':
            outs = R.ode.implicit_euler(A, x, y, [h], threshold=0, normalize=0, progress=False)
        elif routine == 'ode.trapezoidal_rule':
            outs = R.ode.trapezoidal_rule(A, x, y, [h], threshold=0, normalize=0, progress=False)
        elif routine == 'ode.hod':
            outs = R.ode.hod(A, x, h, 2, order=2, threshold=0, max_rank=50, normalize=0, progress=False)
        elif routine == 'ode.hod previous_value':
            outs = R.ode.hod(A, x, h, 2, order=2, previous_value=y, threshold=0, max_rank=50, normalize=0, progress=False)
        elif routine == 'ode.tdvp1site':
            outs = R.ode.tdvp1site(A, x, h, 1)
        elif routine == 'ode.tdvp2site':
            outs = R.ode.tdvp2site(A, x, h, 1, threshold=0, max_rank=50)
        elif routine == 'ode.krylov':
            outs = [R.ode.krylov(A, x, 1, h, threshold=0, max_rank=50)]
        elif routine in ('ode.strang_splitting', 'ode.lie_splitting', 'ode.yoshida_splitting', 'ode.kahan_li_splitting'):
            S_ = ctx.input('S', (2, 2), False); L_ = ctx.input('L', (2, 2), False); M_ = ctx.input('M', (2, 2), False)
            outs = getattr(R.ode, routine[4:])(S_, L_, ctx.lift(np.eye(2)), M_, x, h, 1, threshold=0, max_rank=50, normalize=0)
            args = {'x': x}
        elif routine.startswith('ode.errors_'):
            z = TT(mk_cores(ctx, 'z', sx, False))
            getattr(R.ode, routine[4:])(A, [x, y, z], [h, h])
            outs = []
            args = {'A': A, 'x': x, 'y': y}
        elif routine == 'regression.mandy_fm':
            data = ctx.input('data', (1, 2), False)
            yd = ctx.input('ydata', (1, 2), False)
            outs = [R.regression.mandy_fm(data, yd, [lambda t: t, lambda t: t * t], threshold=0.0)]
            args = {}
        elif routine == 'tedmd.amuset_hocur':
            data = ctx.input('data', (1, 3), False)
            phi = [_funcs(ctx, R.transform, 1, ['const', 'id'])]
            ev, et = R.tedmd.amuset_hocur(data, [np.array([0, 1]), np.array([0, 2])], [np.array([1, 2]), np.array([1, 0])], phi, max_rank=1000)
            outs = list(et)
            args = {}
        elif routine == 'tgedmd.amuset_hosvd':
            data = ctx.input('data', (2, 3), False)
            sig = ctx.input('sig', (2, 2, 3), False)
            phi = [_funcs(ctx, R.transform, 1, ['const', 'id']), [R.transform.ConstantFunction(1), R.transform.Identity(1)]]
            ev, et, rk_ = R.tgedmd.amuset_hosvd(data, phi, sig, threshold=0, return_option='eigentensors')
            outs = list(et) if isinstance(et, (list, tuple)) else [et]
            args = {}
        elif routine == 'transform.hocur':
            data = ctx.input('data', (2, 3), False)
            phi = [_funcs(ctx, R.transform, 1, ['const', 'id']), [R.transform.Identity(1), R.transform.Monomial(1, 2)]]
            outs = [R.transform.hocur(data, phi, ranks=2, repeats=1, multiplier=10, progress=False)]
            args = {}
        elif routine in ('tdmd_exact', 'tdmd_standard'):
            sxx = {'rows': [2, 2], 'cols': [1, 1], 'ranks': [1, 2, 1]}
            ev, modes = getattr(R.tdmd, routine)(x, y)
            outs = [modes]
            args = {'x': x, 'y': y}
        elif routine == 'tedmd.amuset_hosvd batch':
            data = ctx.input('data', (1, 3), False)
            phi = [_funcs(ctx, R.transform, 1, ['const', 'id'])]
            ev, et = R.tedmd.amuset_hosvd(data, [np.array([0, 1]), np.array([0, 2])], [np.array([1, 2]), np.array([1, 0])], phi, threshold=0)
            outs = list(et)
            args = {}
        elif routine == 'regression.arr':
            data = ctx.input('data', (1, 2), False)
            yd = ctx.input('ydata', (1, 2), False)
            phi = [_funcs(ctx, R.transform, 1, ['const', 'id']), _funcs(ctx, R.transform, 1, ['id', 'mono2']), _funcs(ctx, R.transform, 1, ['const', 'mono2'])][:order]
            outs = R.regression.arr(data, yd, phi, x, repeats=1, progress=False)
            args = {'x': x}
        elif routine == 'regression.mandy_cm':
            data = ctx.input('data', (1, 2), False)
            yd = ctx.input('ydata', (1, 2), False)
            outs = [R.regression.mandy_cm(data, yd, [lambda t: t, lambda t: t * t], threshold=0.0)]
            args = {}
        else:
            raise KeyError(routine)
        lives = []
        for k_, o in args.items():
            lives.append(Live(k_, o, ctx))
        # arguments unchanged by the call itself
        ref = {'A': None}
        results = []
        for j, o in enumerate(outs):
            if isinstance(o, TT):
                if any(o is l.obj for l in lives):
                    continue            # handed back by identity (e.g. the initial value heading a trajectory)
                if not _consistent(o):
                    ctx.fail('%s: returned train #%d has inconsistent metadata' % (routine, j), repr((_meta(o), [tuple(c.shape) for c in o.cores])))
                    continue
                results.append(Live('result%d' % j, o, ctx))
        lives += results
        # value of the arguments after the call == value of fresh copies of the same symbolic inputs
        A0 = TT(mk_cores(ctx, 'A', sA, False)); A0 = A0 + A0.transpose()
        fresh = {'A': A0, 'x': TT(mk_cores(ctx, 'x', sx, False)), 'y': TT(mk_cores(ctx, 'y', sy, False))}
        for k_, o in args.items():
            if _consistent(o) and _meta(o) == _meta(fresh[k_]):
                ctx.eq('%s: argument %s unchanged by the call' % (routine, k_), _open_full(ctx, o), _open_full(ctx, fresh[k_]))
            else:
                ctx.fail('%s: metadata of argument %s changed by the call' % (routine, k_), '%s -> %s' % (_meta(fresh[k_]), _meta(o)))
        # one in-place operation on each returned train
        for rl in results:
            for qname in (then,):
                inpl = _inplace_ops(ctx)
                ok, _ = _applicable(inpl[qname], rl.obj, {})
                if ok:
                    _check_all(ctx, '[%s ; %s on %s]' % (routine, qname, rl.name), lives, [rl.obj])
                    rl.value = _open_full(ctx, rl.obj)
                    rl.meta = _meta(rl.obj)
        return len(results)
    res = ctx.explore('routine ' + routine, body, cap=128)
    ctx.check('at least one feasible path', len(res) >= 1)


# ------------------------------------------------ no hidden state between calls (caches keyed by object identity, ...)
STATELESS = ['sle.als', 'sle.mals', 'evp.als', 'evp.power_method', 'ode.explicit_euler', 'ode.implicit_euler', 'ode.trapezoidal_rule', 'ode.hod',
             'ode.tdvp1site', 'ode.tdvp2site', 'ode.krylov', 'ode.errors_expl_euler', 'ode.errors_impl_euler', 'ode.errors_trapezoidal',
             'ode.strang_splitting', 'TT.norm', 'TT.matmul', 'TT.pinv',
             # routines on plain data matrices: the data array is changed in place between the two calls
             'regression.mandy_cm', 'regression.mandy_fm', 'regression.arr', 'tdmd_exact', 'tedmd.amuset_hosvd', 'transform.basis_decomposition',
             'transform.function_major', 'transform.gram', 'tgedmd.amuset_hosvd']


def _stateless_call(ctx, R, routine, A, x, y, h):
    TT = R.TT
    if routine == 'sle.als':
        return [R.sle.als(A, x, y, repeats=1)]
    if routine == 'sle.mals':
        return [R.sle.mals(A, x, y, repeats=1, threshold=0)]
    if routine == 'evp.als':
        ev, et, _ = R.evp.als(A, x, number_ev=1, repeats=1, sigma=1)
        return [ev, et]
    if routine == 'evp.power_method':
        ev, et = R.evp.power_method(A, x, repeats=1, sigma=ctx.scalar('sigma'))
        return [ev, et]
    if routine == 'ode.explicit_euler':
        return list(R.ode.explicit_euler(A, x, [h, h], threshold=0, max_rank=50, normalize=0, progress=False))
    if routine == 'ode.implicit_euler':
        return list(R.ode.implicit_euler(A, x, y, [h], threshold=0, normalize=0, progress=False))
    if routine == 'ode.trapezoidal_rule':
        return list(R.ode.trapezoidal_rule(A, x, y, [h], threshold=0, normalize=0, progress=False))
    if routine == 'ode.hod':
        return list(R.ode.hod(A, x, h, 2, order=2, threshold=0, max_rank=50, normalize=0, progress=False))
    if routine == 'ode.tdvp1site':
        return list(R.ode.tdvp1site(A, x, h, 1))
    if routine == 'ode.tdvp2site':
        return list(R.ode.tdvp2site(A, x, h, 1, threshold=0, max_rank=50))
    if routine == 'ode.krylov':
        return [R.ode.krylov(A, x, 1, h, threshold=0, max_rank=50)]
    if routine.startswith('ode.errors_'):
        return list(getattr(R.ode, routine[4:])(A, [x, y, x], [h, h]))
    if routine == 'ode.strang_splitting':
        S_ = ctx.input('S', (2, 2), False); L_ = ctx.input('L', (2, 2), False); M_ = ctx.input('M', (2, 2), False)
        return list(R.ode.strang_splitting(S_, L_, ctx.lift(np.eye(2)), M_, x, h, 1, threshold=0, max_rank=50, normalize=0))
    if routine == 'TT.norm':
        return [A.norm(), x.norm()]
    if routine == 'TT.matmul':
        return [A @ x, A @ A]
    if routine == 'TT.pinv':
        return [x.pinv(1)]
    if routine in DATA_ROUTINES:
        return DATA_ROUTINES[routine](ctx, R, x)
    raise KeyError(routine)


def _dd_phi(ctx, R):
    from .C15 import _funcs
    return [_funcs(ctx, R.transform, 1, ['const', 'id']), _funcs(ctx, R.transform, 1, ['id', 'mono2'])]


DATA_ROUTINES = {
    # (ctx, R, x) -> results; the data matrices come from ctx.input under fixed names so that the history run and the reference run see the same symbols
    'regression.mandy_cm': lambda ctx, R, x: [R.regression.mandy_cm(ctx.cache_data['data'], ctx.cache_data['ydata'], [lambda t: t, lambda t: t * t], threshold=0.0)],
    'regression.mandy_fm': lambda ctx, R, x: [R.regression.mandy_fm(ctx.cache_data['data'], ctx.cache_data['ydata'], [lambda t: t, lambda t: t * t], threshold=0.0)],
    'regression.arr': lambda ctx, R, x: list(R.regression.arr(ctx.cache_data['data'], ctx.cache_data['ydata'], _dd_phi(ctx, R), x, repeats=1, progress=False)),
    'tdmd_exact': lambda ctx, R, x: list(R.tdmd.tdmd_exact(x, ctx.cache_data['y_tt'])),
    'tedmd.amuset_hosvd': lambda ctx, R, x: _flat(R.tedmd.amuset_hosvd(ctx.cache_data['data3'], np.array([0, 1]), np.array([1, 2]), _dd_phi(ctx, R)[:1], threshold=0)),
    'transform.basis_decomposition': lambda ctx, R, x: [R.transform.basis_decomposition(ctx.cache_data['data'], _dd_phi(ctx, R))],
    'transform.function_major': lambda ctx, R, x: [R.transform.function_major(ctx.cache_data['data'], [lambda t: t, lambda t: t * t], add_one=False)],
    'transform.gram': lambda ctx, R, x: [R.transform.gram(ctx.cache_data['data'], ctx.cache_data['data3'], _dd_phi(ctx, R))],
    'tgedmd.amuset_hosvd': lambda ctx, R, x: _flat(R.tgedmd.amuset_hosvd(ctx.cache_data['data3'], _dd_phi(ctx, R), ctx.cache_data['sig'], threshold=0, return_option='eigenvectors')),
}


def _flat(res):
    out = []
    for r in res:
        if isinstance(r, (list, tuple)):
            out.extend(r)
        else:
            out.append(r)
    return out


@scenario('C06', 'stateless', lambda tier: [{'routine': r, 'order': o} for o in ((2,) if tier == 'quick' else (2, 3)) for r in STATELESS
                                             if not (o != 2 and r in DATA_ROUTINES)])        # the data-driven calls are written for two basis modes
def stateless(ctx, routine, order=2):
    """a routine called with objects that were used in an earlier call and then changed IN PLACE (cores of the operator and of the vector replaced)
    returns what it returns for fresh objects holding the new values: no result depends on anything remembered from the earlier call
    (memoised intermediates keyed by object identity, module-level caches, default-argument lists)"""
    TT, R = ctx.R.TT, ctx.R
    if ctx.mode == 'tv':
        from symtt.core import SkipTV
        raise SkipTV()
    dims = [2] * order
    sA = {'rows': dims, 'cols': dims, 'ranks': [1] * (order + 1)}
    sx = {'rows': dims, 'cols': [1] * order, 'ranks': [1] + [2] * (order - 1) + [1]}

    def fresh_state():
        if ctx.sym:
            from symtt import state, lapack
            ex = state.S.explorer
            state.reset(); state.S.explorer = ex
            if ex is not None:
                for a in ctx.assumptions:
                    ex.assume(a)
            lapack.set_policy(_order_eig_policy(ctx))

    def dense(o):
        if isinstance(o, TT):
            return _open_full(ctx, o)
        return o

    def body():
        two, three = ctx.const_frac(2), ctx.const_frac(3)
        h = ctx.scalar('h', lo=(0,))
        # ---- history: call, change the objects in place, call again
        fresh_state()
        C = TT(mk_cores(ctx, 'A', sA, False))
        A = C + C.transpose()
        x = TT(mk_cores(ctx, 'x', sx, False))
        y = TT(mk_cores(ctx, 'y', sx, False))

        def data():
            return {'data': ctx.input('data', (1, 2), False), 'ydata': ctx.input('ydata', (1, 2), False), 'data3': ctx.input('data3', (1, 3), False),
                    'sig': ctx.input('sig', (1, 1, 3), False), 'y_tt': TT(mk_cores(ctx, 'y', sx, False))}
        ctx.cache_data = data()
        _stateless_call(ctx, R, routine, A, x, y, h)
        A.cores[0] = two * A.cores[0]
        x.cores[order - 1] = three * x.cores[order - 1]
        for k_ in ('data', 'data3'):
            ctx.cache_data[k_][0, 0] = two * ctx.cache_data[k_][0, 0]          # the caller overwrites an entry of the data matrix in place
        fresh_state()
        got = [dense(o) for o in _stateless_call(ctx, R, routine, A, x, y, h)]
        # ---- reference: fresh objects holding the new values, same environment answers (the stubs number their answers per run)
        fresh_state()
        C2 = TT(mk_cores(ctx, 'A', sA, False))
        A2 = C2 + C2.transpose()
        A2.cores[0] = two * A2.cores[0]
        x2 = TT(mk_cores(ctx, 'x', sx, False))
        x2.cores[order - 1] = three * x2.cores[order - 1]
        y2 = TT(mk_cores(ctx, 'y', sx, False))
        ctx.cache_data = data()
        for k_ in ('data', 'data3'):
            ctx.cache_data[k_][0, 0] = two * ctx.cache_data[k_][0, 0]
        ref = [dense(o) for o in _stateless_call(ctx, R, routine, A2, x2, y2, h)]
        ctx.check('%s: same number of results' % routine, len(got) == len(ref))
        for j, (a, b) in enumerate(zip(got, ref)):
            ctx.eq('%s: result %d after an earlier call and an in-place change of the arguments == result for fresh objects' % (routine, j), a, b, tol=1e-9)
        return len(got)
    res = ctx.explore('stateless ' + routine, body, cap=64)
    ctx.check('at least one feasible path', len(res) >= 1)
