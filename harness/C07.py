"""C07 -- ALS/MALS linear solvers."""
import itertools

import numpy as np

from symtt.core import scenario, HarnessError
from symtt import dense as D
from .common import free_policy, mk_cores, meta_ok

META = {
    'explanation': 'sle.als / sle.mals are run end to end on symbolic operator, right-hand side and initial guess with the micro-solver and '
                   'QR/RQ/SVD as stubs. (I) Galerkin consistency at every micro-step of both half-sweeps: the matrix and right-hand side handed '
                   'to the micro-solver equal P^H A P and P^H b, P being the frame built by the harness (index loops) from the other cores of the '
                   'CURRENT iterate -- for arbitrary (not assumed orthonormal) frames, real and complex, solvers solve/lu. (I + uniqueness contract) '
                   'fixed point: with b := A x* and x* as initial guess, the coordinates of x* in the current frame satisfy every micro system '
                   '(so a micro-solver with a unique solution returns them) and the returned train equals x*. (S) sweep schedule for repeats 1,2, '
                   'result dims = rhs dims, ALS never raises a rank, MALS ranks <= max_rank on every forked path, inputs unchanged. Shapes with leading / trailing modes of size 1 (F-contiguous supercores) are part of the grid. NOT solver-decided, sampled by the validation run on random Hermitian positive-definite operators (scenario descent): energy-norm error <= that of the guess and non-increasing over repeats 1-3, exact solution returned, exactness at maximal ranks, both micro-solvers, real and complex.',
    'bounds': {'quick': 'orders 2-3 (ALS also order 1), mode size 2 (one size-1 mode shape), ranks of operator/rhs/guess in {1,2}, real and complex, '
                        'repeats 1-2, solver solve/lu',
               'thorough': 'adds order 4 and rank-3 guesses'},
    'outside': ['energy-norm descent, monotonicity in repeats and exactness at maximal ranks are consequences of Galerkin consistency for SPD operators '
                '(Holtz-Rohwedder-Schneider 2012); the inequalities themselves are not solver-checked',
                'fixed point is shown for the trivial QR/SVD factorisation family plus Galerkin consistency for arbitrary frames', 'rounding / conditioning'],
    'assumptions': ['micro-solver contract: returns the unique solution of a nonsingular system'],
    'tv_per_scenario': {'quick': 1, 'thorough': 2},
    'tv_all': ['descent'],
}


def _shapes(tier):
    out = []
    base = [([2, 2], [1, 2, 1], [1, 2, 1], [1, 2, 1]),
            ([2, 2], [1, 1, 1], [1, 2, 1], [1, 1, 1]),
            ([2, 2, 2], [1, 2, 2, 1], [1, 1, 2, 1], [1, 2, 1, 1]),
            ([2, 1, 2], [1, 2, 1, 1], [1, 2, 2, 1], [1, 2, 2, 1]),
            ([2, 2, 2], [1, 1, 2, 1], [1, 2, 2, 1], [1, 2, 2, 1]),
            # leading / trailing modes of size 1: the reshaped (super)cores are F-contiguous views that LAPACK may overwrite in place
            ([1, 2, 2], [1, 1, 2, 1], [1, 1, 2, 1], [1, 1, 2, 1]),
            ([2, 1], [1, 2, 1], [1, 1, 1], [1, 1, 1])]        # ranks of the vectors bounded by the mode products (bond rank <= 1 next to a size-1 mode)
    if tier != 'quick':
        base += [([2, 2, 2, 2], [1, 2, 2, 2, 1], [1, 1, 2, 1, 1], [1, 2, 2, 2, 1]),
                 ([2, 3], [1, 2, 1], [1, 2, 1], [1, 3, 1]),
                 ([3, 2, 2], [1, 2, 1, 1], [1, 1, 2, 1], [1, 3, 2, 1])]
    for dims, rA, rb, rx in base:
        out.append({'dims': dims, 'rA': rA, 'rb': rb, 'rx': rx})
    return out


def _mk(ctx, s, cplx):
    d = len(s['dims'])
    sA = {'rows': s['dims'], 'cols': s['dims'], 'ranks': s['rA']}
    sb = {'rows': s['dims'], 'cols': [1] * d, 'ranks': s['rb']}
    sx = {'rows': s['dims'], 'cols': [1] * d, 'ranks': s['rx']}
    return sA, sb, sx


def frame(ctx, cores, i, width=1, ranks=None, dims=None):
    """dense frame P (N x K) of the iterate at position i: x = P vec(core_i[, core_i+1])"""
    d = len(cores)
    n = list(dims) if dims is not None else [c.shape[1] for c in cores]
    left = D.tt_full_open(ctx, cores[:i]) if i > 0 else None                 # (1, n.., 1.., r_i)
    right = D.tt_full_open(ctx, cores[i + width:]) if i + width < d else None  # (r, n.., 1.., 1)
    ri = ranks[i] if ranks is not None else cores[i].shape[0]
    rj = ranks[i + width] if ranks is not None else cores[i + width - 1].shape[3]
    mid = n[i:i + width]
    N = int(np.prod(n))
    K = ri * int(np.prod(mid)) * rj
    P = ctx.zeros((N, K))
    one = ctx.const_frac(1)
    for J in itertools.product(*[range(x) for x in n]):
        row = 0
        for k in range(d):
            row = row * n[k] + J[k]
        for a in range(ri):
            lv = one if left is None else D._get(left, (0,) + J[:i] + (0,) * i + (a,))
            for b in range(rj):
                rv = one if right is None else D._get(right, (b,) + J[i + width:] + (0,) * (d - i - width) + (0,))
                col = a
                for k in range(width):
                    col = col * n[i + k] + J[i + k]
                col = col * rj + b
                D._set(P, (row, col), lv * rv)
    return P


class Recorder(object):
    """wrap the private update function of the sle module (looked up in the module globals at call time)"""

    def __init__(self, sle, name):
        self.sle, self.name = sle, name
        self.calls = []

    def __enter__(self):
        self.orig = self.sle.__dict__[self.name]

        def wrapped(i, micro_op, micro_rhs, solution, *rest):
            self.calls.append({'i': i, 'op': micro_op.copy(), 'rhs': micro_rhs.copy(), 'cores': [c.copy() for c in solution.cores],
                               'ranks': list(solution.ranks), 'direction': rest[-1]})
            return self.orig(i, micro_op, micro_rhs, solution, *rest)
        self.sle.__dict__[self.name] = wrapped
        return self

    def __exit__(self, *a):
        self.sle.__dict__[self.name] = self.orig


class LinProxy(object):
    """concrete mode: stand-in for the module global `lin` of sle that records what the micro-solver returned"""

    def __init__(self, real):
        self._real = real
        self.solved = []

    def __getattr__(self, k):
        return getattr(self._real, k)

    def solve(self, a, b, **kw):
        a0, b0 = np.array(a, copy=True), np.array(b, copy=True)
        x = self._real.solve(a, b, **kw)
        self.solved.append((a0, b0, np.array(x, copy=True)))
        return x

    def lu_solve(self, lu, b, **kw):
        b0 = np.array(b, copy=True)
        x = self._real.lu_solve(lu, b, **kw)
        self.solved.append((None, b0, np.array(x, copy=True)))
        return x


class NpProxy(object):
    """concrete mode: stand-in for the module global `np` of sle whose linalg.solve is recorded by the given LinProxy"""

    def __init__(self, real, rec):
        self._real = real

        class _LA(object):
            def __getattr__(self_la, k):
                return getattr(real.linalg, k)

            def solve(self_la, a, b):
                a0, b0 = np.array(a, copy=True), np.array(b, copy=True)
                x = real.linalg.solve(a, b)
                rec.solved.append((a0, b0, np.array(x, copy=True)))
                return x
        self.linalg = _LA()

    def __getattr__(self, k):
        return getattr(self._real, k)


def _grid(tier):
    out = []
    for s in _shapes(tier):
        for method in ('als', 'mals'):
            if method == 'mals' and len(s['dims']) < 2:
                continue
            for cplx in (False, True):
                if cplx and len(s['dims']) > 3:
                    continue            # order 4 complex: see _fp_grid
                for solver in ('solve', 'lu'):
                    if tier == 'quick' and solver == 'lu' and cplx and len(s['dims']) > 2:
                        continue
                    for repeats in (1, 2):
                        if repeats == 2 and (cplx or solver == 'lu' or len(s['dims']) > 3):
                            continue
                        out.append({'shape': s, 'method': method, 'cplx': cplx, 'solver': solver, 'repeats': repeats})
    return out


def _expected_schedule(method, d, repeats):
    sched = []
    for _ in range(repeats):
        if method == 'als':
            sched += [(i, 'forward') for i in range(d - 1)] + [(i, 'backward') for i in range(d - 1, -1, -1)]
        else:
            sched += [(i, 'forward') for i in range(d - 2)] + [(i, 'backward') for i in range(d - 2, -1, -1)]
    return sched


@scenario('C07', 'galerkin', _grid)
def galerkin(ctx, shape, method, cplx, solver, repeats):
    """every micro system of a full run equals the Galerkin projection onto the current frame; schedule; dims; inputs unchanged"""
    if ctx.mode == 'tv' and 1 in (shape['dims'][0], shape['dims'][-1]):
        from symtt.core import SkipTV
        raise SkipTV()      # boundary modes of size 1: the real LAPACK overwrites the F-contiguous core views in place, the concrete shim does not; the two
                            # concrete runs are not comparable step by step (the symbolic run models the overwrite)
    TT = ctx.R.TT
    sle = ctx.R.sle
    d = len(shape['dims'])
    sA, sb, sx = _mk(ctx, shape, cplx)
    A = TT(mk_cores(ctx, 'A', sA, cplx))
    b = TT(mk_cores(ctx, 'b', sb, cplx))
    x0 = TT(mk_cores(ctx, 'x', sx, cplx))
    Ad = D.as_matrix(D.tt_full(ctx, mk_cores(ctx, 'A', sA, cplx)), d)
    bd = D.as_matrix(D.tt_full(ctx, mk_cores(ctx, 'b', sb, cplx)), d)
    x0d = D.tt_full(ctx, mk_cores(ctx, 'x', sx, cplx))
    if ctx.sym:
        from symtt import state, lapack
        free_policy(ctx)
    width = 1 if method == 'als' else 2
    proxy = None
    if not ctx.sym and ctx.mode != 'tv':
        proxy = LinProxy(sle.lin)
        sle.lin = proxy
        real_np = sle.np
        sle.np = NpProxy(real_np, proxy)
    try:
        with Recorder(sle, '__update_core_' + method) as rec:
            if method == 'als':
                sol = sle.als(A, x0, b, repeats=repeats, solver=solver)
            else:
                sol = sle.mals(A, x0, b, repeats=repeats, solver=solver, threshold=0, max_rank=np.inf)
    finally:
        if proxy is not None:
            sle.lin = proxy._real
            sle.np = real_np
    sched = [(c['i'], c['direction']) for c in rec.calls]
    # the micro-solver (either branch) must be asked for, and return, the solution of  micro_op . y = micro_rhs
    glabel = '%s/%s: every micro-solve solves micro_op y = micro_rhs' % (method, solver)
    if ctx.sym:
        from symtt import state as _st
        solves = [c for c in _st.S.stub_log if c.kind == 'solve']
        with ctx.group(glabel):
            ctx.check('one linear solve per micro step', len(solves) == len(rec.calls), detail='%d vs %d' % (len(solves), len(rec.calls)))
            for n, (c, sv) in enumerate(zip(rec.calls, solves)):
                ctx.eq('micro step %d: matrix handed to the solver (after trans) == micro_op' % n, sv.A, c['op'])
                ctx.eq('micro step %d: right-hand side handed to the solver == micro_rhs' % n, sv.b.reshape(-1), c['rhs'].reshape(-1))
    elif proxy is not None:
        ok = len(proxy.solved) == len(rec.calls)
        worst = 0.0
        for c, (a0, b0, xs) in zip(rec.calls, proxy.solved):
            op = np.asarray(c['op'], dtype=complex); rhs = np.asarray(c['rhs'], dtype=complex).reshape(-1)
            res = np.linalg.norm(op @ np.asarray(xs, dtype=complex).reshape(-1) - rhs)
            worst = max(worst, res / (1e-300 + np.linalg.norm(rhs) + np.linalg.norm(op) * np.linalg.norm(xs)))
        ctx.check(glabel, bool(ok and worst < 1e-8), detail='worst relative residual %.2e (%d solves, %d micro steps)' % (worst, len(proxy.solved), len(rec.calls)))
    ctx.check('%s: sweep schedule (repeats=%d)' % (method, repeats), sched == _expected_schedule(method, d, repeats), detail=repr(sched))
    for n, c in enumerate(rec.calls):
        P = frame(ctx, c['cores'], c['i'], width, c['ranks'], shape['dims'])
        PH = D.conj_t(ctx, P)
        tag = '%s step %d (core %d, %s)' % (method, n, c['i'], c['direction'])
        ctx.eq(tag + ': micro matrix == P^H A P', c['op'], D.matmul(ctx, PH, D.matmul(ctx, Ad, P)))
        ctx.eq(tag + ': micro right-hand side == P^H b', c['rhs'], D.matmul(ctx, PH, bd))
    meta_ok(ctx, method + ' result', sol)
    ctx.check(method + ': result has the dimensions of the right-hand side', sol.row_dims == b.row_dims and sol.col_dims == b.col_dims and sol.order == b.order)
    if method == 'als':
        ctx.check('als never raises a rank', all(a <= c for a, c in zip(sol.ranks, shape['rx'])), detail='%s vs %s' % (sol.ranks, shape['rx']))
    ctx.eq(method + ': operator unchanged', D.as_matrix(A.full(), d), Ad)
    ctx.eq(method + ': right-hand side unchanged', D.as_matrix(b.full(), d), bd)
    ctx.eq(method + ': initial guess unchanged', x0.full(), x0d)
    ctx.check(method + ': result is a new object', sol is not x0 and not any(np.shares_memory(sol.cores[i], x0.cores[i]) for i in range(d)))


# ------------------------------------------------------------------------ fixed point
def _fp_grid(tier):
    out = []
    for s in _shapes(tier):
        for method in ('als', 'mals'):
            for cplx in (False, True):
                if tier == 'quick' and cplx and len(s['dims']) > 2 and method == 'mals':
                    continue
                if cplx and len(s['dims']) > 3:
                    continue            # order 4 complex: the worker runs out of memory / z3 ignores its timeout -- not claimed
                for repeats in (1, 2):
                    if repeats == 2 and (cplx or len(s['dims']) > 2):
                        continue
                    out.append({'shape': s, 'method': method, 'cplx': cplx, 'repeats': repeats})
    return out


@scenario('C07', 'fixed_point', _fp_grid)
def fixed_point(ctx, shape, method, cplx, repeats):
    """b := A x*, initial guess x*: the coordinates of x* solve every micro system and the returned train equals x*"""
    TT = ctx.R.TT
    sle = ctx.R.sle
    d = len(shape['dims'])
    sA, sb, sx = _mk(ctx, shape, cplx)
    A = TT(mk_cores(ctx, 'A', sA, cplx))
    xs = TT(mk_cores(ctx, 'x', sx, cplx))
    b = A @ xs
    xsd = D.tt_full(ctx, mk_cores(ctx, 'x', sx, cplx))
    if not ctx.sym:
        if method == 'als':
            sol = sle.als(A, xs, b, repeats=repeats)
        else:
            sol = sle.mals(A, xs, b, repeats=repeats, threshold=0)
        ctx.eq('%s: exact solution as initial guess is returned (value)' % method, sol.full(), xsd, tol=1e-6)
        return
    from symtt import state, lapack
    from symtt.array import asobj, tensordot as sym_td
    from symtt.solve import prove_equal
    state.reset()
    outer = ctx
    bookkeeping = {'carry': None, 'n': 0, 'bad': 0}

    class OraclePolicy(lapack.TrivPolicy):
        """QR/RQ/SVD answer the trivial factorisation; the micro-solver answers the coordinates of x* in the current frame after the
        solver has confirmed that they satisfy the micro system (uniqueness contract)."""

        def solve(self, Amic, bmic):
            c = self.current
            cores = list(c['cores'])
            i, direction = c['i'], c['direction']
            carry = bookkeeping['carry']
            if carry is not None:
                cores[carry[0]] = carry[1]        # the true core at that position (the stored one is stale / lost its factor)
            three = lambda x: x[:, :, 0, :] if x.ndim == 4 else x
            if method == 'als':
                w = three(cores[i])
            else:
                w = sym_td(three(cores[i]), three(cores[i + 1]), axes=([2], [0]))
            wv = w.reshape(-1, 1)
            bookkeeping['n'] += 1
            outer.eq('%s step %d (core %d, %s): coordinates of x* satisfy the micro system' % (method, bookkeeping['n'] - 1, i, direction),
                     D.matmul(outer, Amic, wv), bmic)
            return wv.copy()

    pol = lapack.set_policy(OraclePolicy())
    name = '__update_core_' + method
    orig = sle.__dict__[name]

    def wrapped(i, micro_op, micro_rhs, solution, *rest):
        before = [c for c in solution.cores]
        pol.current = {'i': i, 'cores': before, 'direction': rest[-1]}
        n0 = len(state.S.stub_log)
        r = orig(i, micro_op, micro_rhs, solution, *rest)
        # carry for the next step: the factor the update dropped, absorbed into the neighbouring (true) core
        fac = [c for c in state.S.stub_log[n0:] if c.kind in ('qr', 'rq', 'svd')]
        bookkeeping['carry'] = None
        three = lambda x: x[:, :, 0, :] if x.ndim == 4 else x
        if fac:
            f = fac[-1]
            if f.kind == 'qr':          # core i = Q, R (k x r_{i+1}) belongs to core i+1
                bookkeeping['carry'] = (i + 1, sym_td(f.R, three(before[i + 1]), axes=([1], [0])))
            elif f.kind == 'rq':        # core i = Q, R (r_i x k) belongs to core i-1
                bookkeeping['carry'] = (i - 1, sym_td(three(before[i - 1]), f.R, axes=([2], [0])))
            elif rest[-1] == 'forward':  # core i = U, diag(s) Vh is the true core i+1
                k = f.s.shape[0]
                SV = D.matmul(outer, _diag(outer, f.s), f.Vh)
                bookkeeping['carry'] = (i + 1, SV.reshape(k, solution.row_dims[i + 1], solution.ranks[i + 2]))
            elif i > 0:                 # core i+1 = Vh, U diag(s) is the true core i
                k = f.s.shape[0]
                US = D.matmul(outer, f.U, _diag(outer, f.s))
                bookkeeping['carry'] = (i, US.reshape(solution.ranks[i], solution.row_dims[i], k))
        return r
    sle.__dict__[name] = wrapped
    try:
        if method == 'als':
            sol = sle.als(A, xs, b, repeats=repeats)
        else:
            sol = sle.mals(A, xs, b, repeats=repeats, threshold=0, max_rank=np.inf)
    finally:
        sle.__dict__[name] = orig
    ctx.check('%s: every micro step was answered by the oracle' % method, bookkeeping['n'] == len(_expected_schedule(method, d, repeats)))
    ctx.eq('%s: exact solution as initial guess is returned (value)' % method, sol.full(), xsd)
    meta_ok(ctx, method + ' fixed point result', sol)


def _diag(ctx, s):
    k = s.shape[0]
    out = ctx.zeros((k, k))
    for i in range(k):
        D._set(out, (i, i), D._get(s, (i,)))
    return out


# -------------------------------------------------------------------- MALS rank bound
@scenario('C07', 'mals_rank', lambda tier: [{'shape': s, 'max_rank': mr, 'use_theta': ut}
                                             for s in _shapes(tier) if len(s['dims']) >= 2
                                             for mr in (1, 2, None) for ut in (False, True) if (mr is not None or ut)])
def mals_rank(ctx, shape, max_rank, use_theta):
    """MALS with a symbolic relative threshold and/or max_rank: on every forked path no inner rank exceeds max_rank, metadata consistent"""
    TT = ctx.R.TT
    sle = ctx.R.sle
    d = len(shape['dims'])
    sA, sb, sx = _mk(ctx, shape, False)
    theta = ctx.scalar('theta', lo=(0,), hi=(1,)) if use_theta else 0
    mr = np.inf if max_rank is None else max_rank

    def body():
        if ctx.sym:
            from symtt import lapack
            lapack.set_policy(lapack.FreePolicy(positive_spectrum='first'))
        A = TT(mk_cores(ctx, 'A', sA, False))
        b = TT(mk_cores(ctx, 'b', sb, False))
        x0 = TT(mk_cores(ctx, 'x', sx, False))
        sol = sle.mals(A, x0, b, repeats=1, threshold=theta, max_rank=mr)
        tag = 'mals(theta=%s,max_rank=%s) path ranks=%s' % ('sym' if use_theta else 0, max_rank, sol.ranks)
        meta_ok(ctx, tag, sol)
        if max_rank is not None:
            ctx.check(tag + ': no inner rank exceeds max_rank', all(r <= max_rank for r in sol.ranks[1:-1]))
        ctx.check(tag + ': dims of the right-hand side', sol.row_dims == b.row_dims)
        return sol.ranks
    res = ctx.explore('mals ranks', body)
    ctx.check('at least one feasible path', len(res) >= 1)


# --------------------------------------------- the inequalities and exactness themselves (concrete only)
def _spd_tt(TT, ttmod, rng, dims, rank, cplx):
    """Hermitian positive-definite TT operator  C^H C + I  from a random TT operator C (NumPy data)"""
    d = len(dims)
    rk = [1] + [rank] * (d - 1) + [1]
    cs = [rng.randn(rk[i], dims[i], dims[i], rk[i + 1]) + (1j * rng.randn(rk[i], dims[i], dims[i], rk[i + 1]) if cplx else 0) for i in range(d)]
    C = TT([0.5 * c for c in cs])
    return C.transpose(conjugate=True) @ C + ttmod.eye(dims)


@scenario('C07', 'descent', lambda tier: [{'dims': dims, 'method': m, 'solver': sv, 'cplx': c} for dims in ([2, 3, 2], [3, 2], [2, 2, 1, 2], [1, 3, 2], [3, 1])
                                           for m in ('als', 'mals') for sv in ('solve', 'lu') for c in (False, True) if not (m == 'mals' and len(dims) < 3 and sv == 'lu')])
def descent(ctx, dims, method, solver, cplx):
    """NOT a solver verdict (the inequalities need spectral arguments): on random Hermitian positive-definite operators the validation run checks the
    property's own sentences numerically -- energy-norm error never above that of the guess and non-increasing in repeats 1..3, exact solution as
    guess returned, maximal-rank guess gives the exact solution after one sweep, dims of the rhs, rank statements"""
    TT, sle = ctx.R.TT, ctx.R.sle
    if ctx.mode == 'tv':
        from symtt.core import SkipTV
        raise SkipTV()
    if ctx.sym:
        ctx.held('energy descent / monotonicity / exactness are checked numerically by the validation run of this scenario (sampling, stated in the evidence)')
        return
    d = len(dims)
    rng = np.random.RandomState(7 + 13 * d + (5 if cplx else 0))
    A = _spd_tt(TT, ctx.R.tt, rng, dims, 2, cplx)
    Ad = np.asarray(A.matricize())
    N = Ad.shape[0]
    rmax = [1] + [min(int(np.prod(dims[:i])), int(np.prod(dims[i:]))) for i in range(1, d)] + [1]

    def rand_vec(rk):
        return TT([rng.randn(rk[i], dims[i], 1, rk[i + 1]) + (1j * rng.randn(rk[i], dims[i], 1, rk[i + 1]) if cplx else 0) for i in range(d)])
    xs = rand_vec([1] + [min(2, r) for r in rmax[1:-1]] + [1])
    b = A @ xs
    bd = np.asarray(b.matricize()).reshape(-1)
    sol = np.linalg.solve(Ad, bd)

    def err(t):
        e = np.asarray(t.matricize()).reshape(-1) - sol
        return float(np.real(np.vdot(e, Ad @ e)))
    kw = {'solver': solver}
    if method == 'mals':
        kw.update(threshold=1e-14, max_rank=8)
    run = getattr(sle, method)
    guess = rand_vec([1] + [min(2, r) for r in rmax[1:-1]] + [1])
    e0 = err(guess)
    errs = [err(run(A, guess, b, repeats=k, **kw)) for k in (1, 2, 3)]
    tol = 1e-9 * max(1.0, e0)
    ctx.check('%s/%s: energy-norm error never above that of the initial guess and non-increasing in repeats' % (method, solver),
              errs[0] <= e0 + tol and errs[1] <= errs[0] + tol and errs[2] <= errs[1] + tol, detail='%.3e -> %s' % (e0, ['%.3e' % e for e in errs]))
    back = run(A, xs, b, repeats=1, **kw)
    ctx.check('%s/%s: the exact solution given as initial guess is returned' % (method, solver), err(back) <= 1e-16 * max(1.0, float(np.linalg.norm(sol)) ** 2) * N * 1e4,
              detail='energy error %.3e' % err(back))
    full = run(A, rand_vec(rmax), b, repeats=1, **kw)
    ctx.check('%s/%s: a guess of maximal ranks gives the exact solution after one sweep' % (method, solver),
              float(np.linalg.norm(np.asarray(full.matricize()).reshape(-1) - sol)) <= 1e-8 * max(1.0, float(np.linalg.norm(sol))),
              detail='error %.3e' % float(np.linalg.norm(np.asarray(full.matricize()).reshape(-1) - sol)))
    ctx.check('%s/%s: result has the dimensions of the right-hand side' % (method, solver), full.row_dims == b.row_dims and full.col_dims == b.col_dims)
    if method == 'als':
        r1 = run(A, guess, b, repeats=2, **kw)
        ctx.check('als: no rank raised', all(a_ <= b_ for a_, b_ in zip(r1.ranks, guess.ranks)))
    else:
        r1 = sle.mals(A, guess, b, repeats=2, solver=solver, threshold=1e-14, max_rank=2)
        ctx.check('mals: ranks <= max_rank', max(r1.ranks) <= 2)
