"""C08 -- ALS eigen-solver returns consistent Ritz pairs."""
import itertools

import numpy as np

from symtt.core import scenario, HarnessError, SkipTV
from symtt import dense as D
from .common import free_policy, mk_cores, meta_ok
from .C07 import frame

META = {
    'explanation': 'evp.als is run end to end on symbolic operators/guesses with eig/eigh/eigs, SVD as stubs. (I) at every micro-step of both '
                   'half-sweeps the projected pencil equals the Galerkin projection: micro_op == P^H (A + shift*sum_j p_j p_j^H) P and '
                   'micro_op_gevp == P^H B P with P the frame built by index loops from the current iterate (real and COMPLEX Hermitian, generalised, '
                   'with deflation tensors) -- this is also "deflation == explicitly shifted operator" at the level of every micro problem. '
                   '(I + eig contract) Ritz pair: the reported eigenvalue is the stub eigenvalue selected as closest to sigma at the last micro-step and the '
                   'returned eigentensor is the frame applied to its eigenvector, so x^H A x == v^H micro_op v, x^H B x == v^H micro_gevp v and the '
                   'eigenvalue is the generalised Rayleigh quotient. (IV) best-so-far bookkeeping over sweeps: a further sweep never moves the reported '
                   'eigenvalue away from sigma. power_method: system handed to sle.als, normalisation, reported Rayleigh quotient x^H A x / x^H B x. NOT solver-decided, sampled by the validation run on random Hermitian pencils (scenario ritz_bounds): Rayleigh quotient and unit norm, eigenvalue <= lambda_max, exact dominant eigentensor returned, exact extremal pair at maximal ranks, power_method converging to the pair nearest its shift.',
    'bounds': {'quick': 'orders 2-3, mode size 2, operator/guess ranks {1,2}, real and complex, 0-3 deflation tensors, standard and generalised, number_ev 1-2, '
                        'repeats 1-2, orderings of |lambda - sigma|: all permutations for micro size <= 3, three fixed ones above',
               'thorough': 'adds order 3 rank-2 complex with deflation, 2 deflation tensors, more orderings'},
    'outside': ['power_method with complex data AND a generalised problem (complex rational terms: solver does not finish) -- complex standard and real generalised are decided', 'lambda <= lambda_max, exactness at maximal ranks, convergence of the inverse iteration (Courant-Fischer / power-method theory on top of the '
                'decided obligations)', 'ties in |lambda - sigma|', 'ARPACK/LAPACK internals', 'rounding'],
    'assumptions': ['eig contract A V = B V diag(w); Hermitian pencils have a real spectrum'],
    'tv_all': ['ritz_bounds'],
    'tv_per_scenario': {'quick': 1, 'thorough': 1},
    'replay_random': 16,
    'timeout_ms': {'quick': 120000, 'thorough': 300000},
}

# rA = ranks of C in A = C + C^H (the operator has twice these inner ranks)
SHAPES = [
    {'dims': [2, 2], 'rA': [1, 1, 1], 'rx': [1, 2, 1]},
    {'dims': [2, 2], 'rA': [1, 2, 1], 'rx': [1, 1, 1]},
    {'dims': [2, 2, 2], 'rA': [1, 1, 1, 1], 'rx': [1, 2, 1, 1]},
    {'dims': [2, 2, 2], 'rA': [1, 1, 1, 1], 'rx': [1, 1, 2, 1]},
]
SHAPES_T = SHAPES + [{'dims': [2, 2, 2], 'rA': [1, 1, 2, 1], 'rx': [1, 2, 2, 1]}, {'dims': [2, 1, 2], 'rA': [1, 2, 1, 1], 'rx': [1, 2, 2, 1]}]


def _mk(s):
    d = len(s['dims'])
    return ({'rows': s['dims'], 'cols': s['dims'], 'ranks': s['rA']}, {'rows': s['dims'], 'cols': [1] * d, 'ranks': s['rx']})


_PD_SHIFT = 24     # concrete runs: C + C^H + 24 I is positive definite for entries in (-1, 1) and at most 8 states


def _herm_tt(ctx, name, sA, cplx):
    """a Hermitian TT operator for ALL values of its free entries: C + C^H.  The right-hand operator B of a generalised problem must also be positive
    definite (eigh factorises it; for an indefinite B the pencil has complex eigenvalues): in the CONCRETE modes (replays, validation runs) a multiple of
    the identity is added to B.  The symbolic obligations are algebraic identities that hold for every Hermitian B."""
    C = ctx.R.TT(mk_cores(ctx, name, sA, cplx))
    H = C + C.transpose(conjugate=True)
    if name == 'B' and not ctx.sym:
        H = H + _PD_SHIFT * ctx.R.tt.eye(list(sA['rows']))
    return H


def _herm_dense(ctx, name, sA, cplx, d):
    Cd = D.as_matrix(D.tt_full(ctx, mk_cores(ctx, name, sA, cplx)), d)
    H = D.add(ctx, Cd, D.conj_t(ctx, Cd))
    if name == 'B' and not ctx.sym:
        H = D.add(ctx, H, D.scale(ctx, ctx.const_frac(_PD_SHIFT), D.eye(ctx, H.shape[0])))
    return H


class Rec(object):
    def __init__(self, evp):
        self.evp = evp
        self.calls = []

    def __enter__(self):
        self.orig = self.evp.__dict__['__update_core']

        def wrapped(i, micro_op, micro_op_gevp, number_ev, solution, solver, sigma, real, direction):
            c = {'i': i, 'op': micro_op.copy(), 'gevp': None if micro_op_gevp is None else micro_op_gevp.copy(),
                 'cores': [x for x in solution.cores], 'ranks': list(solution.ranks), 'direction': direction}
            self.calls.append(c)
            ev = self.orig(i, micro_op, micro_op_gevp, number_ev, solution, solver, sigma, real, direction)
            c['eigenvalues'] = ev
            c['core_after'] = solution.cores[i]
            return ev
        self.evp.__dict__['__update_core'] = wrapped
        return self

    def __exit__(self, *a):
        self.evp.__dict__['__update_core'] = self.orig


def _order_policy(ctx, sigma, perm_seed):
    """eig stubs return real eigenvalue symbols whose distances to sigma are strictly ordered by a chosen permutation
    (WLOG by cases: the ordering returned by LAPACK is arbitrary; ties are outside)"""
    from symtt import lapack, state
    from symtt.scalar import Sc

    class P(lapack.FreePolicy):
        real_spectrum = True
        assume_sorted_spectrum = False

        def eig(self, A, B=None, hermitian=False, k=None):
            lam, V = lapack.FreePolicy.eig(self, A, B, hermitian, k)
            n = lam.shape[0]
            if not hermitian and n > 1:
                perms = list(itertools.permutations(range(n))) if n <= 3 else None
                if perms is not None:
                    pi = perms[perm_seed % len(perms)]
                else:
                    pi = [list(range(n)), list(range(n - 1, -1, -1)), list(range(1, n)) + [0]][perm_seed % 3]
                dist = [abs(Sc.of(lam.plain()[j]) - sigma) for j in range(n)]
                for a, b in zip(pi[:-1], pi[1:]):
                    state.assume(dist[a] < dist[b])
                self.last_perm = list(pi)
            return lam, V
    return P()


def _grid(tier):
    out = []
    shapes = SHAPES if tier == 'quick' else SHAPES_T
    for si, s in enumerate(shapes):
        for cplx in (False, True):
            for gevp in (False, True):
                for nprev in (0, 1) if tier == 'quick' else (0, 1, 2):
                    for solver in ('eig', 'eigh', 'eigs'):
                        if solver == 'eigs' and min(s['rx'][i] * s['dims'][i] * s['rx'][i + 1] for i in range(len(s['dims']))) < 4:
                            continue        # ARPACK (the real eigs) needs k < N - 1: micro systems with fewer than 4 unknowns are inadmissible
                        if tier == 'quick':
                            if solver != 'eig' and (cplx or nprev or gevp and solver == 'eigs'):
                                continue
                        if cplx and nprev and len(s['dims']) > 2:
                            continue        # complex order-3 trains with deflation: single tasks of 30-40 min and exhausted workers (measured); not claimed
                        nperm = 1 if solver != 'eig' else (2 if tier == 'quick' else 4)
                        for perm in range(nperm):
                            out.append({'shape': s, 'cplx': cplx, 'gevp': gevp, 'nprev': nprev, 'solver': solver, 'number_ev': 1, 'repeats': 1, 'perm': perm})
    if tier == 'quick':                 # two (and three) deflation tensors: each rank-one term must use its OWN environments
        for s in shapes[:2]:
            for cplx in (False, True):
                out.append({'shape': s, 'cplx': cplx, 'gevp': False, 'nprev': 2, 'solver': 'eig', 'number_ev': 1, 'repeats': 1, 'perm': 0})
        out.append({'shape': shapes[0], 'cplx': False, 'gevp': True, 'nprev': 3, 'solver': 'eig', 'number_ev': 1, 'repeats': 1, 'perm': 1})
    # several eigenpairs / two sweeps (bookkeeping)
    for s in shapes[:3]:
        out.append({'shape': s, 'cplx': False, 'gevp': False, 'nprev': 0, 'solver': 'eig', 'number_ev': 2, 'repeats': 1, 'perm': 1})
        out.append({'shape': s, 'cplx': False, 'gevp': False, 'nprev': 0, 'solver': 'eigh', 'number_ev': 2, 'repeats': 1, 'perm': 0})
        out.append({'shape': s, 'cplx': False, 'gevp': False, 'nprev': 0, 'solver': 'eig', 'number_ev': 1, 'repeats': 2, 'perm': 2})
    return out


@scenario('C08', 'als', _grid)
def als(ctx, shape, cplx, gevp, nprev, solver, number_ev, repeats, perm):
    """projected pencil == Galerkin projection at every step; reported eigenpair == selected Ritz pair; inputs unchanged"""
    TT = ctx.R.TT
    evp = ctx.R.evp
    if ctx.mode == 'tv' and (number_ev > 1 or repeats > 1):
        raise SkipTV()          # several eigenvectors at once / a second sweep: eigenvector signs depend on how LAPACK is reached (buffer layout), the two concrete runs need not agree
    d = len(shape['dims'])
    sA, sx = _mk(shape)
    sigma = ctx.scalar('sigma')
    shift = ctx.scalar('shift')
    Ad = _herm_dense(ctx, 'A', sA, cplx, d)
    Bd = _herm_dense(ctx, 'B', sA, cplx, d) if gevp else None
    pd = [D.as_matrix(D.tt_full(ctx, mk_cores(ctx, 'p%d' % j, sx, cplx)), d) for j in range(nprev)]
    x0d = D.tt_full(ctx, mk_cores(ctx, 'x', sx, cplx))
    Ash = Ad
    for p in pd:
        Ash = D.add(ctx, Ash, D.scale(ctx, shift, D.matmul(ctx, p, D.conj_t(ctx, p))))

    def body():
        if ctx.sym:
            from symtt import lapack
            lapack.set_policy(_order_policy(ctx, sigma, perm))
        A = _herm_tt(ctx, 'A', sA, cplx)
        B = _herm_tt(ctx, 'B', sA, cplx) if gevp else None
        prev = [TT(mk_cores(ctx, 'p%d' % j, sx, cplx)) for j in range(nprev)]
        x0 = TT(mk_cores(ctx, 'x', sx, cplx))
        with Rec(evp) as rec:
            ev, et, its = evp.als(A, x0, previous=prev, shift=shift, operator_gevp=B, number_ev=number_ev, repeats=repeats,
                                  conv_eps=1e-10, solver=solver, sigma=sigma, real=True)
        sched = [(c['i'], c['direction']) for c in rec.calls]
        sweeps = its
        exp = []
        for _ in range(sweeps):
            exp += [(i, 'forward') for i in range(d - 1)] + [(i, 'backward') for i in range(d - 1, -1, -1)]
        ctx.check('als: sweep schedule, %d sweep(s) reported' % sweeps, sched == exp and 1 <= sweeps <= repeats, detail=repr(sched))
        for n, c in enumerate(rec.calls):
            P = frame(ctx, c['cores'], c['i'], 1, c['ranks'], shape['dims'])
            PH = D.conj_t(ctx, P)
            tag = 'step %d (core %d, %s)' % (n, c['i'], c['direction'])
            ctx.eq(tag + ': micro_op == P^H (A + shift sum p p^H) P', c['op'], D.matmul(ctx, PH, D.matmul(ctx, Ash, P)))
            if gevp:
                ctx.eq(tag + ': micro_op_gevp == P^H B P', c['gevp'], D.matmul(ctx, PH, D.matmul(ctx, Bd, P)))
            else:
                ctx.check(tag + ': no gevp matrix for a standard problem', c['gevp'] is None)
        # ---- the reported eigenpair
        last = rec.calls[-1]
        P0 = frame(ctx, [None] + [x for x in (et if number_ev == 1 else et[0]).cores[1:]], 0, 1,
                   [1] + list((et if number_ev == 1 else et[0]).ranks[1:]), shape['dims'])
        ets = [et] if number_ev == 1 else list(et)
        ctx.check('als: %d eigentensor(s) returned' % number_ev, len(ets) == number_ev)
        for k, t in enumerate(ets):
            meta_ok(ctx, 'eigentensor %d' % k, t)
            ctx.check('eigentensor %d: dims of the operator' % k, t.row_dims == shape['dims'] and t.col_dims == [1] * d)
        if ctx.sym:
            from symtt import state
            eigcalls = [c for c in state.S.stub_log if c.kind in ('eig', 'eigh', 'eigs')]
            ctx.check('one eigen-solve per micro step', len(eigcalls) == len(rec.calls))
            lastcall = eigcalls[-1]
            ctx.eq('last eigen-solve is applied to the recorded micro matrix', lastcall.A, last['op'])
            # which stub eigenpair has been selected at the last step
            if repeats == 1 or sweeps == 1:
                lam = lastcall.w
                nn = lam.shape[0]
                if solver == 'eig':
                    pi = state.S.policy.last_perm if nn > 1 else [0]
                    sel = pi[:number_ev]
                elif solver == 'eigh':
                    sel = list(range(nn - 1, nn - 1 - number_ev, -1))
                else:
                    sel = None
                if sel is not None:
                    evs = [ev] if number_ev == 1 else list(ev)
                    for k in range(number_ev):
                        ctx.eq('reported eigenvalue %d == (real part of) the stub eigenvalue closest to sigma / largest (eigh)' % k,
                               evs[k], D._get(lam, (sel[k],)).real)
                        v = lastcall.v[:, sel[k]].reshape(-1, 1)
                        x = D.as_matrix(ets[k].full(), d)
                        ctx.eq('eigentensor %d == frame of the last step applied to the selected eigenvector' % k, x, D.matmul(ctx, P0, v))
                        xH = D.conj_t(ctx, x)
                        vH = D.conj_t(ctx, v)
                        ctx.eq('eigentensor %d: x^H A_shifted x == v^H micro_op v (Rayleigh numerator)' % k,
                               D.matmul(ctx, xH, D.matmul(ctx, Ash, x)), D.matmul(ctx, vH, D.matmul(ctx, last['op'], v)))
                        if gevp:
                            ctx.eq('eigentensor %d: x^H B x == v^H micro_op_gevp v (Rayleigh denominator)' % k,
                                   D.matmul(ctx, xH, D.matmul(ctx, Bd, x)), D.matmul(ctx, vH, D.matmul(ctx, last['gevp'], v)))
            else:
                # two sweeps: best-so-far bookkeeping
                s1 = rec.calls[len(exp) // sweeps - 1]['eigenvalues']
                s2 = rec.calls[-1]['eigenvalues']
                import z3
                from symtt.scalar import Sc, zterm
                e1, e2 = Sc.of(s1.plain()[0]), Sc.of(s2.plain()[0])
                r = Sc.of(ev)
                d1, d2, dr = abs(e1 - sigma), abs(e2 - sigma), abs(r - sigma)
                ctx.check('reported eigenvalue is one of the per-sweep values', z3.Or(r.eq_term(e1), r.eq_term(e2)), form='IV')
                ctx.check('reported eigenvalue is never farther from sigma than the value after one sweep',
                          zterm(dr.re) <= zterm(d1.re), form='IV')
                ctx.check('... nor than the value after two sweeps', zterm(dr.re) <= zterm(d2.re), form='IV')
        else:
            # concrete: Rayleigh quotient of the returned pair
            evs = [ev] if number_ev == 1 else list(ev)
            An = np.asarray(ctx._num(Ash))
            Bn = np.asarray(ctx._num(Bd)) if gevp else np.eye(An.shape[0])
            for k in range(number_ev):
                x = np.asarray(ctx._num(ets[k].full())).reshape(-1, 1)
                num = (x.conj().T @ An @ x)[0, 0]
                den = (x.conj().T @ Bn @ x)[0, 0]
                if np.allclose(An, An.conj().T):
                    ctx.eq('reported eigenvalue %d == Rayleigh quotient of the returned eigentensor' % k, evs[k], (num / den).real, tol=1e-7)
        if repeats == 2 and sweeps == 2 and number_ev == 1:
            # the returned eigentensor is the one recorded WITH the reported eigenvalue (not the iterate of a later, worse sweep)
            per = len(exp) // sweeps
            q1 = rec.calls[per - 1]['eigenvalues'][0]
            q2 = rec.calls[2 * per - 1]['eigenvalues'][0]
            second_better = bool(abs(q2 - sigma) < abs(q1 - sigma))     # the code's own comparison (already decided on this path)
            win = rec.calls[2 * per - 1] if second_better else rec.calls[per - 1]
            ctx.eq('reported eigenvalue is the one of the winning sweep', ev, q2 if second_better else q1)
            wc = [win['core_after'][:, :, :, :, 0]] + list(win['cores'][1:])
            ctx.eq('returned eigentensor is the iterate of the sweep whose eigenvalue is reported (best-so-far pair stays together)',
                   D.as_matrix(ets[0].full(), d), D.as_matrix(D.tt_full(ctx, wc), d))
        ctx.eq('operator unchanged', D.as_matrix(A.full(), d), Ad)
        ctx.eq('initial guess unchanged', x0.full(), x0d)
        for j, p in enumerate(prev):
            ctx.eq('deflation tensor %d unchanged' % j, D.as_matrix(p.full(), d), pd[j])
        return its
    res = ctx.explore('evp.als', body, cap=64)
    ctx.check('at least one feasible path', len(res) >= 1)


# ---------------------------------------------------------------------- power method
@scenario('C08', 'power_method', lambda tier: [{'shape': s, 'cplx': c, 'gevp': g, 'repeats': r}
                                                for s in (SHAPES[:3] if tier == 'quick' else SHAPES_T) for c in (False, True) for g in (False, True)
                                                for r in (1, 2) if not (r == 2 and (c or g)) and not (tier == 'quick' and len(s['dims']) > 2 and (c or g)) and not (c and g)
                                                and not (g and len(s['dims']) > 2 and s not in SHAPES)])       # generalised order-3 extras: 3-6 min each, one exhausted its worker
def power_method(ctx, shape, cplx, gevp, repeats):
    """power_method: linear systems handed to sle.als are (A - sigma B, x_k, B x_k); iterate normalised with TT.norm; reported value
    == x^H A x / x^H B x of the returned eigentensor"""
    TT = ctx.R.TT
    evp = ctx.R.evp
    tt = ctx.R.tt
    d = len(shape['dims'])
    sA, sx = _mk(shape)
    sigma = ctx.scalar('sigma')
    A = _herm_tt(ctx, 'A', sA, cplx)
    B = _herm_tt(ctx, 'B', sA, cplx) if gevp else None
    x0 = TT(mk_cores(ctx, 'x', sx, cplx))
    Ad = _herm_dense(ctx, 'A', sA, cplx, d)
    Bd = _herm_dense(ctx, 'B', sA, cplx, d) if gevp else D.eye(ctx, Ad.shape[0])
    calls = []
    if ctx.sym:
        from symtt import state, lapack
        free_policy(ctx)

    class FakeSle(object):
        @staticmethod
        def als(op, guess, rhs, **kw):
            y = TT(mk_cores(ctx, 'y%d' % len(calls), sx, cplx))      # an arbitrary answer of the inner solver
            calls.append({'op': op, 'guess': guess, 'rhs': rhs, 'kw': kw, 'y': D.as_matrix(D.tt_full(ctx, [c for c in y.cores]), d)})
            return y
    norms = []

    def fake_norm(self, p=2):
        # TT.norm is decided in C01; here it is an environment call with the contract  nu > 0, nu^2 = ||y||^2
        nu = ctx.scalar('nu%d' % len(norms), lo=(0,))
        norms.append({'arg': D.as_matrix(D.tt_full(ctx, [c for c in self.cores]), d), 'nu': nu, 'p': p})
        return nu
    real_sle = evp.sle
    real_norm = TT.norm
    evp.sle = FakeSle
    TT.norm = fake_norm
    try:
        ev, et = evp.power_method(A, x0, operator_gevp=B, repeats=repeats, sigma=sigma)
    finally:
        evp.sle = real_sle
        TT.norm = real_norm
    ctx.check('power_method: one inner solve and one norm per iteration', len(calls) == repeats and len(norms) == repeats)
    shifted = D.sub(ctx, Ad, D.scale(ctx, sigma, Bd))
    prev = D.as_matrix(x0.full(), d)
    for k, c in enumerate(calls):
        ctx.eq('iteration %d: operator handed to sle.als == A - sigma B' % k, D.as_matrix(c['op'].full(), d), shifted)
        ctx.eq('iteration %d: initial guess == previous iterate' % k, D.as_matrix(c['guess'].full(), d), prev)
        ctx.eq('iteration %d: right-hand side == B x_k' % k, D.as_matrix(c['rhs'].full(), d), D.matmul(ctx, Bd, prev))
        ctx.eq('iteration %d: TT.norm is taken of the inner solution' % k, norms[k]['arg'], c['y'])
        ctx.check('iteration %d: 2-norm' % k, norms[k]['p'] == 2)
        prev = D.scale(ctx, ctx.const_frac(1) / norms[k]['nu'], c['y'])
    x = D.as_matrix(et.full(), d)
    ctx.eq('returned eigentensor == last inner solution / its 2-norm', x, prev, tol=1e-7)
    xH = D.conj_t(ctx, x)
    num = D.matmul(ctx, xH, D.matmul(ctx, Ad, x))
    if gevp:
        den = D.matmul(ctx, xH, D.matmul(ctx, Bd, x))
        # ev * (x^H B x) == x^H A x  (avoids a symbolic complex division in the query)
        ctx.eq('reported eigenvalue * x^H B x == x^H A x (generalised Rayleigh quotient)', ev * D._get(den, (0, 0)), D._get(num, (0, 0)), tol=1e-7)
    else:
        ctx.eq('reported eigenvalue == x^H A x (Rayleigh quotient of the unit-norm eigentensor)', ev, D._get(num, (0, 0)), tol=1e-7)
    ctx.eq('operator unchanged', D.as_matrix(A.full(), d), Ad)


# ------------------------------------------ bounds, exact eigenpairs, inverse iteration (concrete only)
@scenario('C08', 'ritz_bounds', lambda tier: [{'dims': dims, 'cplx': c, 'gevp': g} for dims in ([2, 2, 2], [3, 2]) for c in (False, True) for g in (False, True)])
def ritz_bounds(ctx, dims, cplx, gevp):
    """NOT a solver verdict (Courant-Fischer / convergence statements): on random Hermitian pencils the validation run checks the property's own
    sentences numerically -- Rayleigh quotient and unit norm, eigenvalue <= largest eigenvalue of the pencil, exact dominant eigentensor as guess is
    returned with its eigenvalue, maximal-rank guess gives the exact extremal pair, power_method from a maximal-rank guess converges to the pair
    nearest sigma and reports its Rayleigh quotient"""
    TT, evp, ttm = ctx.R.TT, ctx.R.evp, ctx.R.tt
    if ctx.mode == 'tv':
        raise SkipTV()
    if ctx.sym:
        ctx.held('eigenvalue bounds / exact pairs / inverse iteration are checked numerically by the validation run of this scenario (sampling, stated in the evidence)')
        return
    import scipy.linalg as sl
    d = len(dims)
    rng = np.random.RandomState(11 + 7 * d + (3 if cplx else 0) + (1 if gevp else 0))
    rk = [1] + [2] * (d - 1) + [1]

    def rand_op():
        return TT([rng.randn(rk[i], dims[i], dims[i], rk[i + 1]) + (1j * rng.randn(rk[i], dims[i], dims[i], rk[i + 1]) if cplx else 0) for i in range(d)])
    C = rand_op()
    A = C + C.transpose(conjugate=True)
    B = None
    if gevp:
        G = 0.4 * rand_op()
        B = G.transpose(conjugate=True) @ G + ttm.eye(dims)
    Ad = np.asarray(A.matricize())
    Bd = np.eye(Ad.shape[0]) if B is None else np.asarray(B.matricize())
    lam, V = sl.eigh(Ad, Bd)
    rmax = [1] + [min(int(np.prod(dims[:i])), int(np.prod(dims[i:]))) for i in range(1, d)] + [1]

    def rand_vec(r):
        return TT([rng.randn(r[i], dims[i], 1, r[i + 1]) + (1j * rng.randn(r[i], dims[i], 1, r[i + 1]) if cplx else 0) for i in range(d)])

    def rq(t):
        x = np.asarray(t.matricize()).reshape(-1)
        return float(np.real(np.vdot(x, Ad @ x) / np.vdot(x, Bd @ x))), x
    kw = dict(operator_gevp=B, solver='eigh', real=not cplx)
    # low-rank guess: Ritz value is a Rayleigh quotient and never above the largest eigenvalue
    ev, x, _ = evp.als(A, rand_vec([1] + [1] * (d - 1) + [1]), repeats=3, **kw)
    q, xv = rq(x)
    ctx.eq('reported eigenvalue == (generalised) Rayleigh quotient of the returned eigentensor', float(np.real(ev)), q, tol=1e-8)
    if not gevp:
        ctx.eq('eigentensor has unit 2-norm (standard problem)', float(np.linalg.norm(xv)), 1.0, tol=1e-8)
    ctx.check('eigenvalue <= largest eigenvalue of the pencil', float(np.real(ev)) <= lam[-1] + 1e-8 * max(1.0, abs(lam[-1])), detail='%.6f vs %.6f' % (float(np.real(ev)), lam[-1]))
    # maximal ranks: exact extremal pair
    ev2, x2, _ = evp.als(A, rand_vec(rmax), repeats=2, **kw)
    ctx.eq('a guess of maximal ranks yields the exact extremal eigenvalue', float(np.real(ev2)), float(lam[-1]), tol=1e-7)
    # exact dominant eigentensor as guess
    vtop = V[:, -1]
    guess = TT(vtop.reshape(dims + [1] * d))
    ev3, x3, _ = evp.als(A, guess, repeats=1, **kw)
    x3v = np.asarray(x3.matricize()).reshape(-1)
    ov = abs(np.vdot(vtop, Bd @ x3v)) / np.sqrt(abs(np.vdot(vtop, Bd @ vtop)) * abs(np.vdot(x3v, Bd @ x3v)))
    ctx.eq('an exact dominant eigentensor as initial guess is returned with its eigenvalue (up to phase)', np.array([float(np.real(ev3)), float(ov)]),
           np.array([float(lam[-1]), 1.0]), tol=1e-7)
    # an eigenvalue that is numerically zero (operator shifted so that an interior eigenvalue sits at 0), default solver 'eig', real=True:
    # whatever is used to recognise "real" eigenvalues must be relative to the spectrum, not to the eigenvalue itself
    if not gevp:
        kz = len(lam) // 2
        A0 = A + (-float(lam[kz])) * ttm.eye(dims)
        evz, xz, _ = evp.als(A0, rand_vec(rmax), repeats=2, solver='eig', sigma=0.0, real=True)
        ctx.eq('a maximal-rank guess finds the eigenvalue at the target even when it is numerically zero', float(np.real(evz)), 0.0, tol=1e-7)
    # inverse power iteration near an interior eigenvalue
    k = len(lam) // 2
    gap = min(lam[k] - lam[k - 1], lam[k + 1] - lam[k]) if 0 < k < len(lam) - 1 else 1.0
    sigma = float(lam[k] + 0.05 * gap)
    evp_, xp = evp.power_method(A, rand_vec(rmax), operator_gevp=B, repeats=40, sigma=sigma)
    qp, _ = rq(xp)
    ctx.eq('power_method reports the Rayleigh quotient of its eigentensor', float(np.real(evp_)), qp, tol=1e-8)
    ctx.eq('power_method from a maximal-rank guess converges to the eigenvalue nearest its shift', float(np.real(evp_)), float(lam[k]), tol=1e-5)
