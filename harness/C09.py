"""C09 -- one-step ODE schemes reproduce their defining recurrences."""
import itertools
import math

import numpy as np

from symtt.core import scenario, HarnessError
from symtt import dense as D
from .common import mk_cores, meta_ok

META = {
    'explanation': 'explicit_euler and hod (orders 2,4; with/without previous_value) are run on symbolic operators/states with DISTINCT symbolic step '
                   'sizes and threshold 0: every list element equals the dense recurrence (cut-point chain over the SVDs of the internal ortho calls); '
                   'implicit_euler / trapezoidal_rule are checked compositionally: with the inner TT solver replaced by an arbitrary-answer stub, the '
                   'operator, right-hand side, initial guess and options of every inner solve equal I - h_k A (resp. I - h_k/2 A and (I + h_k/2 A) x_k), and '
                   'the produced state is the stub answer (normalised). Normalisation: the state is divided by exactly TT.norm(p=normalize) of itself. '
                   'errors_*: numerator/denominator of every returned ratio are the norms of the dense defect / reference of that scheme. '
                   'adaptive_step_size: all accept/reject paths of the step-size controller (inner solves and norms are arbitrary positive reals), bounded '
                   'to N loop iterations: accepted times strictly increase and never exceed time_end; inputs unchanged. implicit_inner: one step with the REAL '
                   'alternating solver inside (solve / LU as fresh-symbol stubs): every micro system equals the Galerkin projection of the step equation '
                   '(I - c h A) x = rhs onto the current frame and is exactly what the micro-solver is asked to solve (real and complex, ALS/MALS, both micro-solvers). reused_objects: integrators and error estimators called with an operator and a state that were used before and then changed in place reproduce the recurrence of the current objects. hod is also run with the differencing operator supplied by the caller (op_hod).',
    'bounds': {'quick': 'orders 2-3, mode size 2 (one size-1 mode), operator/state ranks {1,2}, real and complex, 1-3 steps, normalize 0/1/2, HOD orders 2 and 4, '
                        'adaptive controller: 3 loop iterations',
               'thorough': 'more shapes, 4 controller iterations'},
    'outside': ['accuracy of the schemes', 'runs with an effective truncation (threshold > 0 / small max_rank)', 'that the inner TT solver solves its system (C07)',
                'TT.norm itself (C01)', 'rounding'],
    'assumptions': ['norm stubs return positive reals', 'executed divisions are defined'],
    'tv_per_scenario': {'quick': 1, 'thorough': 1},
}

SHAPES = [
    {'dims': [2, 2], 'rA': [1, 2, 1], 'rx': [1, 2, 1]},
    {'dims': [2, 2, 2], 'rA': [1, 1, 2, 1], 'rx': [1, 2, 1, 1]},
    {'dims': [2, 1, 2], 'rA': [1, 2, 1, 1], 'rx': [1, 1, 2, 1]},
]


def _mk(s):
    d = len(s['dims'])
    return ({'rows': s['dims'], 'cols': s['dims'], 'ranks': s['rA']}, {'rows': s['dims'], 'cols': [1] * d, 'ranks': s['rx']})


def _dense_op(ctx, name, sA, cplx):
    return D.as_matrix(D.tt_full(ctx, mk_cores(ctx, name, sA, cplx)), len(sA['rows']))


def _dense_vec(ctx, t):
    return D.as_matrix(D.tt_full(ctx, [c for c in t.cores]), t.order)


class NormStub(object):
    """TT.norm replaced by an environment call: fresh positive number, argument and p recorded"""

    def __init__(self, ctx, TT, prefix='nu'):
        self.ctx, self.TT, self.prefix = ctx, TT, prefix
        self.calls = []

    def __enter__(self):
        self.orig = self.TT.norm
        stub = self

        def fake(self_tt, p=2):
            nu = stub.ctx.scalar('%s%d' % (stub.prefix, len(stub.calls)), lo=(0,))
            stub.calls.append({'arg': _dense_vec(stub.ctx, self_tt), 'nu': nu, 'p': p})
            return nu
        self.TT.norm = fake
        return self

    def __exit__(self, *a):
        self.TT.norm = self.orig


def _steps(ctx, n):
    return [ctx.scalar('h%d' % k, lo=(0,)) for k in range(n)]


# ------------------------------------------------------------------- explicit Euler
def _ee_grid(tier):
    out = []
    for s in SHAPES if tier == 'quick' else SHAPES + [{'dims': [2, 2, 2], 'rA': [1, 2, 2, 1], 'rx': [1, 2, 2, 1]}]:
        for cplx in (False, True):
            for normalize in (0, 1, 2):
                for steps in (1, 2, 3):
                    if steps == 3 and (cplx or normalize or len(s['dims']) > 2):
                        continue
                    if cplx and normalize == 1:
                        continue
                    out.append({'shape': s, 'cplx': cplx, 'normalize': normalize, 'steps': steps})
    return out


@scenario('C09', 'explicit_euler', _ee_grid)
def explicit_euler(ctx, shape, cplx, normalize, steps):
    """x_{k+1} = (I + h_k A) x_k [/ norm]; one state per step plus the initial one (by identity)"""
    TT, ode = ctx.R.TT, ctx.R.ode
    d = len(shape['dims'])
    sA, sx = _mk(shape)
    Ad = _dense_op(ctx, 'A', sA, cplx)
    x0d = D.as_matrix(D.tt_full(ctx, mk_cores(ctx, 'x', sx, cplx)), d)
    hs = _steps(ctx, steps)
    I = D.eye(ctx, Ad.shape[0])
    box = {}

    def run():
        A = TT(mk_cores(ctx, 'A', sA, cplx))
        x0 = TT(mk_cores(ctx, 'x', sx, cplx))
        with NormStub(ctx, TT) as ns:
            sol = ode.explicit_euler(A, x0, list(hs), threshold=0, max_rank=50, normalize=normalize, progress=False)
        box.update(A=A, x0=x0, sol=sol, norms=ns.calls)
        return ctx.cat([_dense_vec(ctx, t) for t in sol])

    def spec():
        xs = [x0d]
        for k in range(steps):
            y = D.matmul(ctx, D.add(ctx, I, D.scale(ctx, hs[k], Ad)), xs[-1])
            if normalize > 0:
                y = D.scale(ctx, ctx.const_frac(1) / box['norms'][k]['nu'], y)
            xs.append(y)
        box['spec'] = xs
        return ctx.cat(xs)
    (ctx.chain if (steps == 1 and d == 2 and not cplx) else ctx.via)('explicit_euler trajectory == dense recurrence', run, spec)
    sol = box['sol']
    ctx.check('explicit_euler: steps + 1 states, the first one is the initial value itself', len(sol) == steps + 1 and sol[0] is box['x0'])
    for t in sol:
        meta_ok(ctx, 'explicit_euler state', t)
    if normalize > 0:
        ctx.check('explicit_euler: one norm per step with p = normalize', len(box['norms']) == steps and all(c['p'] == normalize for c in box['norms']))
        if ctx.sym:
            # the norm is taken of the un-normalised new state  (value-level: T0 run of the chain is the last run executed? no -> recompute under TrivPolicy)
            from symtt import state, lapack
            state.reset()
            lapack.set_policy(lapack.TrivPolicy())
            A = TT(mk_cores(ctx, 'A', sA, cplx))
            x0 = TT(mk_cores(ctx, 'x', sx, cplx))
            with NormStub(ctx, TT) as ns:
                sol2 = ode.explicit_euler(A, x0, list(hs), threshold=0, max_rank=50, normalize=normalize, progress=False)
            xs = box['spec']
            for k in range(steps):
                unnorm = D.matmul(ctx, D.add(ctx, I, D.scale(ctx, hs[k], Ad)), xs[k])
                ctx.eq('explicit_euler step %d: TT.norm is applied to the un-normalised new state' % k, ns.calls[k]['arg'], unnorm)
    ctx.eq('explicit_euler: operator unchanged', D.as_matrix(box['A'].full(), d), Ad)
    ctx.eq('explicit_euler: initial value unchanged', _dense_vec(ctx, box['x0']), x0d)


# ------------------------------------------------------------------------------ HOD
def _conc_cores(ctx, sA):
    """a fixed, generic (non-normal, non-nilpotent) integer TT operator"""
    rng = np.random.RandomState(20260101)
    d = len(sA['rows'])
    cores = []
    for i in range(d):
        shp = (sA['ranks'][i], sA['rows'][i], sA['cols'][i], sA['ranks'][i + 1])
        cores.append(ctx.lift(rng.randint(-2, 3, size=shp).astype(float)))
    return cores


def _hod_grid(tier):
    out = []
    for order in (6, 8) if tier == 'quick' else (6, 8, 10):
        for prev in (False, True):
            out.append({'shape': SHAPES[0], 'order': order, 'prev': prev, 'normalize': 0, 'cplx': False, 'steps': 2, 'conc_op': True})
    for s in SHAPES[:2] if tier == 'quick' else SHAPES:
        for order in (2, 4, 3):
            for prev in (False, True):
                for normalize in (0, 2):
                    for cplx in (False, True):
                        if cplx and (order != 2 or normalize or (not prev and len(s['dims']) > 2)):
                            continue
                        if order == 3 and (prev or normalize or len(s['dims']) > 2):
                            continue
                        if order == 4 and len(s['dims']) > 2 and tier == 'quick':
                            continue
                        out.append({'shape': s, 'order': order, 'prev': prev, 'normalize': normalize, 'cplx': cplx,
                                    'steps': 2 if order == 2 else 1, 'conc_op': False})
    # the caller supplies the differencing operator op_hod (documented option): same recurrence, including the start-up half step
    for order in (2, 4):
        for prev in (False, True):
            out.append({'shape': SHAPES[0], 'order': order, 'prev': prev, 'normalize': 0, 'cplx': False, 'steps': 1, 'conc_op': False, 'supply_op': True})
    out.append({'shape': SHAPES[0], 'order': 6, 'prev': False, 'normalize': 0, 'cplx': False, 'steps': 2, 'conc_op': True, 'supply_op': True})
    return out


@scenario('C09', 'hod', _hod_grid)
def hod(ctx, shape, order, prev, normalize, cplx, steps, conc_op=False, supply_op=False):
    """x_{k+1} = x_{k-1} + H x_k with H = sum_j 2/(2j-1)! h^(2j-1) A^(2j-1); start-up by an Euler half step and a HOD half step backwards"""
    TT, ode = ctx.R.TT, ctx.R.ode
    d = len(shape['dims'])
    sA, sx = _mk(shape)
    opcores = (lambda: _conc_cores(ctx, sA)) if conc_op else (lambda: mk_cores(ctx, 'A', sA, cplx))
    Ad = D.as_matrix(D.tt_full(ctx, opcores()), d)
    x0d = D.as_matrix(D.tt_full(ctx, mk_cores(ctx, 'x', sx, cplx)), d)
    pvd = D.as_matrix(D.tt_full(ctx, mk_cores(ctx, 'pv', sx, cplx)), d)
    h = ctx.scalar('h', lo=(0,))
    I = D.eye(ctx, Ad.shape[0])
    eff = order + (order % 2)
    box = {}

    def Hop(step):
        # sum_{j=1}^{eff/2} 2/(2j-1)! step^(2j-1) A^(2j-1)
        acc = None
        P = Ad
        for j in range(1, eff // 2 + 1):
            if j > 1:
                P = D.matmul(ctx, D.matmul(ctx, P, Ad), Ad)
            coef = ctx.lift(2 / math.factorial(2 * j - 1))      # the documented coefficient 2/(2j-1)!, as the IEEE double the code computes
            sp = step
            for _ in range(2 * j - 2):
                sp = sp * step
            term = D.scale(ctx, coef * sp, P)
            acc = term if acc is None else D.add(ctx, acc, term)
        return acc

    def run():
        A = TT(opcores())
        x0 = TT(mk_cores(ctx, 'x', sx, cplx))
        pv = TT(mk_cores(ctx, 'pv', sx, cplx)) if prev else None
        op_hod = None
        if supply_op:
            # sum_j 2/(2j-1)! h^(2j-1) A^(2j-1) assembled with TT arithmetic (its value is C01's claim)
            P = A
            for j in range(1, eff // 2 + 1):
                if j > 1:
                    P = P @ A @ A
                sp = h
                for _ in range(2 * j - 2):
                    sp = sp * h
                term = (ctx.lift(2 / math.factorial(2 * j - 1)) * sp) * P
                op_hod = term if op_hod is None else op_hod + term
        with NormStub(ctx, TT) as ns:
            sol = ode.hod(A, x0, h, steps, order=order, previous_value=pv, op_hod=op_hod, threshold=0, max_rank=50, normalize=normalize, progress=False)
        box.update(A=A, x0=x0, sol=sol, norms=ns.calls)
        return ctx.cat([_dense_vec(ctx, t) for t in sol])

    def spec():
        nn = iter(box['norms'])
        if prev:
            xm1 = pvd
        else:
            half = h * ctx.const_frac(1, 2)
            back = D.matmul(ctx, D.sub(ctx, I, D.scale(ctx, half, Ad)), x0d)          # explicit Euler half step backwards
            xm1 = D.sub(ctx, x0d, D.matmul(ctx, Hop(half), back))                      # HOD half step backwards
        if normalize > 0:
            xm1 = D.scale(ctx, ctx.const_frac(1) / next(nn)['nu'], xm1)
        xs = [x0d]
        H = Hop(h)
        for k in range(steps):
            before = xm1 if k == 0 else xs[k - 1]
            y = D.add(ctx, before, D.matmul(ctx, H, xs[k]))
            if normalize > 0:
                y = D.scale(ctx, ctx.const_frac(1) / next(nn)['nu'], y)
            xs.append(y)
        return ctx.cat(xs)
    ctx.via('hod trajectory == dense recurrence (order %d)' % eff, run, spec)
    sol = box['sol']
    ctx.check('hod: steps + 1 states, first is the initial value itself', len(sol) == steps + 1 and sol[0] is box['x0'])
    if normalize > 0:
        ctx.check('hod: norms taken with p = normalize', all(c['p'] == normalize for c in box['norms']) and len(box['norms']) == steps + 1)
    ctx.eq('hod: operator unchanged', D.as_matrix(box['A'].full(), d), Ad)
    ctx.eq('hod: initial value unchanged', _dense_vec(ctx, box['x0']), x0d)


# ------------------------------------------------------ implicit Euler / trapezoidal
def _imp_grid(tier):
    out = []
    for s in SHAPES:
        for method in ('implicit_euler', 'trapezoidal_rule'):
            for tt_solver in ('als', 'mals'):
                for normalize in (0, 1, 2):
                    for cplx in (False, True):
                        if cplx and (normalize == 1 or tt_solver == 'mals'):
                            continue
                        out.append({'shape': s, 'method': method, 'tt_solver': tt_solver, 'normalize': normalize, 'cplx': cplx, 'steps': 2})
    return out


@scenario('C09', 'implicit', _imp_grid)
def implicit(ctx, shape, method, tt_solver, normalize, cplx, steps):
    """every inner solve gets (I - c h_k A, previous iterate, rhs of the scheme, documented options); the state is the (normalised) answer"""
    TT, ode = ctx.R.TT, ctx.R.ode
    d = len(shape['dims'])
    sA, sx = _mk(shape)
    Ad = _dense_op(ctx, 'A', sA, cplx)
    I = D.eye(ctx, Ad.shape[0])
    hs = _steps(ctx, steps)
    A = TT(mk_cores(ctx, 'A', sA, cplx))
    x0 = TT(mk_cores(ctx, 'x', sx, cplx))
    g0 = TT(mk_cores(ctx, 'g', sx, cplx))
    x0d = _dense_vec(ctx, x0)
    calls = []

    class Fake(object):
        @staticmethod
        def _ans(kind, op, guess, rhs, kw):
            y = TT(mk_cores(ctx, 'y%d' % len(calls), sx, cplx))
            calls.append({'kind': kind, 'op': D.as_matrix(D.tt_full(ctx, [c for c in op.cores]), d), 'guess': guess, 'guess_d': _dense_vec(ctx, guess),
                          'rhs': _dense_vec(ctx, rhs), 'kw': kw,
                          'y': y, 'yd': _dense_vec(ctx, y)})
            return y

        @staticmethod
        def als(op, guess, rhs, **kw):
            return Fake._ans('als', op, guess, rhs, kw)

        @staticmethod
        def mals(op, guess, rhs, **kw):
            return Fake._ans('mals', op, guess, rhs, kw)
    real = ode.sle
    ode.sle = Fake
    try:
        with NormStub(ctx, TT) as ns:
            fn = getattr(ode, method)
            sol = fn(A, x0, g0, list(hs), repeats=3, tt_solver=tt_solver, threshold=0, max_rank=7, micro_solver='lu', normalize=normalize, progress=False)
    finally:
        ode.sle = real
    ctx.check('%s: one inner solve per step with the requested TT solver' % method, len(calls) == steps and all(c['kind'] == tt_solver for c in calls))
    ctx.check('%s: steps + 1 states, first is the initial value itself' % method, len(sol) == steps + 1 and sol[0] is x0)
    cfac = ctx.const_frac(1) if method == 'implicit_euler' else ctx.const_frac(1, 2)
    prev_state = x0d
    g0d = _dense_vec(ctx, g0)
    for k, c in enumerate(calls):
        ctx.eq('%s step %d: system matrix == I - %sh_k A' % (method, k, '' if method == 'implicit_euler' else '1/2 '), c['op'],
               D.sub(ctx, I, D.scale(ctx, cfac * hs[k], Ad)))
        if method == 'implicit_euler':
            rhs = prev_state
        else:
            rhs = D.matmul(ctx, D.add(ctx, I, D.scale(ctx, cfac * hs[k], Ad)), prev_state)
        ctx.eq('%s step %d: right-hand side of the scheme' % (method, k), c['rhs'], rhs)
        if k == 0:
            ctx.check('%s step 0: initial guess is the given initial_guess' % method, c['guess'] is g0)
        else:
            ctx.eq('%s step %d: initial guess == previous state' % (method, k), c['guess_d'], prev_state)
        want = {'solver': 'lu', 'repeats': 3}
        if tt_solver == 'mals':
            want.update(threshold=0, max_rank=7)
        ctx.check('%s step %d: options handed to the inner solver' % (method, k), c['kw'] == want, detail=repr(c['kw']))
        y = c['yd']
        if normalize > 0:
            ctx.eq('%s step %d: TT.norm applied to the inner solution' % (method, k), ns.calls[k]['arg'], y)
            ctx.check('%s step %d: p = normalize' % (method, k), ns.calls[k]['p'] == normalize)
            y = D.scale(ctx, ctx.const_frac(1) / ns.calls[k]['nu'], y)
        ctx.eq('%s step %d: produced state == (normalised) inner solution' % (method, k), _dense_vec(ctx, sol[k + 1]), y)
        prev_state = y
    ctx.eq('%s: operator unchanged' % method, D.as_matrix(A.full(), d), Ad)
    ctx.eq('%s: initial value unchanged' % method, _dense_vec(ctx, x0), x0d)
    ctx.eq('%s: initial guess unchanged' % method, _dense_vec(ctx, g0), g0d)


# ------------------------------------------------------------------ error estimators
@scenario('C09', 'errors', lambda tier: [{'shape': s, 'which': w, 'cplx': c} for s in SHAPES for w in ('expl_euler', 'impl_euler', 'trapezoidal')
                                          for c in (False, True)])
def errors(ctx, shape, which, cplx):
    """errors_*: ratio k == norm(defect_k) / norm(reference_k) with the dense defect and reference of the scheme"""
    TT, ode = ctx.R.TT, ctx.R.ode
    d = len(shape['dims'])
    sA, sx = _mk(shape)
    Ad = _dense_op(ctx, 'A', sA, cplx)
    I = D.eye(ctx, Ad.shape[0])
    A = TT(mk_cores(ctx, 'A', sA, cplx))
    n = 3
    sol = [TT(mk_cores(ctx, 's%d' % k, sx, cplx)) for k in range(n)]
    sd = [_dense_vec(ctx, t) for t in sol]
    hs = _steps(ctx, n - 1)
    if ctx.sym:
        from symtt import state, lapack
        state.reset()
        lapack.set_policy(lapack.TrivPolicy())
    with NormStub(ctx, TT) as ns:
        err = getattr(ode, 'errors_' + which)(A, sol, list(hs))
    ctx.check('errors_%s: one ratio per step' % which, len(err) == n - 1 and len(ns.calls) == 2 * (n - 1))
    half = ctx.const_frac(1, 2)
    for k in range(n - 1):
        if which == 'expl_euler':
            defect = D.sub(ctx, sd[k + 1], D.matmul(ctx, D.add(ctx, I, D.scale(ctx, hs[k], Ad)), sd[k]))
            ref = sd[k]
        elif which == 'impl_euler':
            defect = D.sub(ctx, D.matmul(ctx, D.sub(ctx, I, D.scale(ctx, hs[k], Ad)), sd[k + 1]), sd[k])
            ref = sd[k]
        else:
            rhs = D.matmul(ctx, D.add(ctx, I, D.scale(ctx, half * hs[k], Ad)), sd[k])
            defect = D.sub(ctx, D.matmul(ctx, D.sub(ctx, I, D.scale(ctx, half * hs[k], Ad)), sd[k + 1]), rhs)
            ref = rhs
        c_num, c_den = ns.calls[2 * k], ns.calls[2 * k + 1]
        ctx.eq('errors_%s step %d: numerator is the norm of the dense defect' % (which, k), c_num['arg'], defect)
        ctx.eq('errors_%s step %d: denominator is the norm of the reference' % (which, k), c_den['arg'], ref)
        ctx.eq('errors_%s step %d: returned value == norm(defect) / norm(reference)' % (which, k), err[k] * c_den['nu'], c_num['nu'])
        ctx.check('errors_%s step %d: 2-norms' % (which, k), c_num['p'] == 2 and c_den['p'] == 2)
    for k in range(n):
        ctx.eq('errors_%s: state %d unchanged' % (which, k), _dense_vec(ctx, sol[k]), sd[k])


# ------------------------------------------------------------------------- adaptive
@scenario('C09', 'adaptive', lambda tier: [{'second': s, 'normalize': nz, 'iters': 3 if tier == 'quick' else 4}
                                            for s in ('two_step_Euler', 'trapezoidal_rule') for nz in (0, 1)])
def adaptive(ctx, second, normalize, iters):
    """adaptive_step_size: every accept/reject path of the controller, bounded number of loop iterations; accepted time points strictly
    increase and never exceed time_end; on normal termination one state per time point; inputs unchanged"""
    TT, ode = ctx.R.TT, ctx.R.ode
    shape = SHAPES[0]
    d = len(shape['dims'])
    sA, sx = _mk(shape)
    time_end = ctx.scalar('T', lo=(0,))
    first = ctx.scalar('h0', lo=(0,))
    Ad = _dense_op(ctx, 'A', sA, False)
    x0d = D.as_matrix(D.tt_full(ctx, mk_cores(ctx, 'x', sx, False)), d)

    class Bound(Exception):
        pass

    def body():
        if ctx.sym:
            from symtt import lapack
            lapack.set_policy(lapack.TrivPolicy())
        A = TT(mk_cores(ctx, 'A', sA, False))
        x0 = TT(mk_cores(ctx, 'x', sx, False))
        g0 = TT(mk_cores(ctx, 'g', sx, False))
        n_als = [0]
        per_iter = 3 if second == 'two_step_Euler' else 2
        accepted = []

        class Fake(object):
            @staticmethod
            def als(op, guess, rhs, **kw):
                if n_als[0] >= per_iter * iters:
                    raise Bound()
                n_als[0] += 1
                return TT(mk_cores(ctx, 'y%d' % n_als[0], sx, False))

        class Utl(object):
            @staticmethod
            def progress(text, percent, **kw):
                if percent != 0:
                    accepted.append(percent)
                return 0
        real_sle, real_utl = ode.sle, ode.utl
        ode.sle, ode.utl = Fake, Utl
        result = None
        try:
            with NormStub(ctx, TT) as ns:
                try:
                    result = ode.adaptive_step_size(A, x0, g0, time_end, step_size_first=first, second_method=second, normalize=normalize, progress=True)
                except Bound:
                    pass
        finally:
            ode.sle, ode.utl = real_sle, real_utl
        # accepted[k] = 100 * time_k / time_end
        tag = 'adaptive path (%d accepted, %s)' % (len(accepted), 'returned' if result is not None else 'cut after %d iterations' % iters)
        prev = ctx.const_frac(0)
        for k, pc in enumerate(accepted):
            ctx.check(tag + ': accepted time %d is larger than the previous one' % k, pc > prev, form='IV')
            ctx.check(tag + ': accepted time %d does not exceed time_end' % k, pc <= 100, form='IV')
            prev = pc
        if result is not None:
            sol, times = result
            ctx.check(tag + ': one state per time point, first state is the initial value itself', len(sol) == len(times) == len(accepted) + 1 and sol[0] is x0)
            for k in range(1, len(times)):
                ctx.check(tag + ': returned time points strictly increase', times[k] > times[k - 1], form='IV')
                ctx.check(tag + ': returned time point <= time_end', times[k] <= time_end, form='IV')
        ctx.eq(tag + ': operator unchanged', D.as_matrix(A.full(), d), Ad)
        ctx.eq(tag + ': initial value unchanged', _dense_vec(ctx, x0), x0d)
        return len(accepted)
    res = ctx.explore('adaptive_step_size', body, cap=400)
    ctx.check('several controller paths explored', len(res) >= (2 if ctx.sym else 1))


# ------------------------------------------------------------------ implicit schemes with the real inner solver
def _inner_grid(tier):
    out = []
    for s in SHAPES[:2] if tier == 'quick' else SHAPES:
        for method in ('implicit_euler', 'trapezoidal_rule'):
            for tt_solver in ('als', 'mals'):
                for cplx in (False, True):
                    for micro in ('solve', 'lu'):
                        if tier == 'quick' and (micro == 'lu') != (cplx and tt_solver == 'mals' and len(s['dims']) == 2):
                            continue
                        out.append({'shape': s, 'method': method, 'tt_solver': tt_solver, 'cplx': cplx, 'micro': micro})
    return out


@scenario('C09', 'implicit_inner', _inner_grid)
def implicit_inner(ctx, shape, method, tt_solver, cplx, micro):
    """one step with the REAL alternating solver inside (LAPACK as fresh symbols): every micro system is the Galerkin projection of the scheme's
    equation (I - c h A) x_new = rhs onto the current frame, and the micro-solver is asked for exactly that system"""
    from .C07 import Recorder, frame, LinProxy, NpProxy
    from .common import free_policy
    TT, ode, sle = ctx.R.TT, ctx.R.ode, ctx.R.sle
    if ctx.mode == 'tv':
        from symtt.core import SkipTV
        raise SkipTV()
    d = len(shape['dims'])
    sA, sx = _mk(shape)
    Ad = _dense_op(ctx, 'A', sA, cplx)
    I = D.eye(ctx, Ad.shape[0])
    h = ctx.scalar('h0', lo=(0,))
    A = TT(mk_cores(ctx, 'A', sA, cplx))
    x0 = TT(mk_cores(ctx, 'x', sx, cplx))
    g0 = TT(mk_cores(ctx, 'g', sx, cplx))
    x0d = _dense_vec(ctx, x0)
    if ctx.sym:
        free_policy(ctx)
    proxy = None
    if not ctx.sym:
        proxy = LinProxy(sle.lin)
        sle.lin = proxy
        real_np = sle.np
        sle.np = NpProxy(real_np, proxy)
    width = 1 if tt_solver == 'als' else 2
    try:
        with Recorder(sle, '__update_core_' + tt_solver) as rec:
            sol = getattr(ode, method)(A, x0, g0, [h], repeats=1, tt_solver=tt_solver, threshold=0, max_rank=np.inf, micro_solver=micro, normalize=0,
                                       progress=False)
    finally:
        if proxy is not None:
            sle.lin = proxy._real
            sle.np = real_np
    cfac = ctx.const_frac(1) if method == 'implicit_euler' else ctx.const_frac(1, 2)
    M = D.sub(ctx, I, D.scale(ctx, cfac * h, Ad))
    rhs = x0d if method == 'implicit_euler' else D.matmul(ctx, D.add(ctx, I, D.scale(ctx, cfac * h, Ad)), x0d)
    ctx.check('%s/%s: at least one micro step per core' % (method, tt_solver), len(rec.calls) >= d - width + 1)
    glabel = '%s/%s/%s: every micro system is the Galerkin projection of the step equation and is what the micro-solver solves' % (method, tt_solver, micro)
    if ctx.sym:
        from symtt import state as _st
        solves = [c for c in _st.S.stub_log if c.kind == 'solve']
        with ctx.group(glabel):
            ctx.check('one linear solve per micro step', len(solves) == len(rec.calls))
            for n, c in enumerate(rec.calls):
                P = frame(ctx, c['cores'], c['i'], width, c['ranks'], shape['dims'])
                PH = D.conj_t(ctx, P)
                tag = 'micro step %d (core %d, %s)' % (n, c['i'], c['direction'])
                ctx.eq(tag + ': micro matrix == P^H (I - c h A) P', c['op'], D.matmul(ctx, PH, D.matmul(ctx, M, P)))
                ctx.eq(tag + ': micro right-hand side == P^H rhs', c['rhs'], D.matmul(ctx, PH, rhs))
                if n < len(solves):
                    ctx.eq(tag + ': matrix handed to the solver == micro matrix', solves[n].A, c['op'])
                    ctx.eq(tag + ': right-hand side handed to the solver', solves[n].b.reshape(-1), c['rhs'].reshape(-1))
    else:
        Mn, rn = np.asarray(M, dtype=complex), np.asarray(rhs, dtype=complex).reshape(-1)
        worst = 0.0
        ok = len(proxy.solved) == len(rec.calls)
        for c, (a0, b0, xs) in zip(rec.calls, proxy.solved):
            cores = [np.asarray(k_, dtype=complex) for k_ in c['cores']]
            P = np.asarray(frame(ctx, cores, c['i'], width, c['ranks'], shape['dims']), dtype=complex)
            res = np.linalg.norm(P.conj().T @ Mn @ P @ np.asarray(xs, dtype=complex).reshape(-1) - P.conj().T @ rn)
            worst = max(worst, res / (1e-300 + np.linalg.norm(rn)))
        ctx.check(glabel, bool(ok and worst < 1e-7), detail='worst relative Galerkin residual %.2e' % worst)
    ctx.check('%s: two states' % method, len(sol) == 2 and sol[0] is x0)
    meta_ok(ctx, method + ' new state', sol[1])
    ctx.eq('%s: initial value unchanged' % method, _dense_vec(ctx, x0), x0d)


# ------------------------------------------------------------ operators and states reused after an in-place change
@scenario('C09', 'reused_objects', lambda tier: [{'routine': r, 'order': 2} for r in ('ode.explicit_euler', 'ode.implicit_euler', 'ode.trapezoidal_rule', 'ode.hod',
                                                                                         'ode.errors_expl_euler', 'ode.errors_impl_euler', 'ode.errors_trapezoidal')])
def reused_objects(ctx, routine, order):
    """an integrator / error estimator called with an operator and a state that were used in an earlier call and then changed in place still reproduces
    the recurrence of the CURRENT operator and state: identical to the result for fresh objects holding the new values (see C06 `stateless`)"""
    from .C06 import stateless
    stateless(ctx, routine, order)
