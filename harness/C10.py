"""C10 -- splitting integrators equal the composed local propagators."""
import itertools

import numpy as np

from symtt.core import scenario, HarnessError
from symtt import dense as D
from .common import mk_cores, meta_ok

META = {
    'explanation': 'Lie / Strang / Yoshida / Kahan-Li splitting for nearest-neighbour (SLIM) operators, matrix exponential as an UNINTERPRETED function '
                   '(equal arguments <=> the same symbolic matrix; the oracle draws its exponentials from the same registry). (I) propagators: the argument of '
                   'every expm call equals (S_i (x) I + sum_k L_i^k (x) M_{i+1}^k) * c * h with c the even/odd coefficient, last site S_d * c * h -- homogeneous and '
                   'site-dependent component lists, interaction rank 1-2, real/complex. (II) one stage (__splitting_stage) on an arbitrary state equals the dense '
                   'Kronecker embedding of the bond propagators of that parity (cut-point chain over truncated_svd). (S) schedule: the sequence of (propagator '
                   'set, parity) stages executed per step equals the definition of each scheme (Lie E O; Strang E O E; Yoshida 3 Strang blocks w1,w0,w1; '
                   'Kahan-Li 17 Strang blocks, palindromic) and every propagator set is built with coefficients [c/2, c]; coefficient tables satisfy their order '
                   'conditions (sum w = 1, sum w^3 = 0, sum w^5 = 0 for Kahan-Li) to 1e-12. (I) end to end: one and two steps of Lie and Strang equal the dense '
                   'product of the same exponentials; normalisation divides by TT.norm(p); skew-Hermitian generators: 2-norm preserved given unitary exponentials. normalisation (all four schemes, normalize 0/1/2, stages replaced by the identity): every produced state == un-normalised state of its step / TT.norm(p) of it, one norm call per step, entries of the returned list are distinct objects holding the state of their own step; concrete replays run the unmodified integrators and check the unit Manhattan / Euclidean norm of every state densely. propagators_unequal: site-dependent components on chains whose neighbouring sites have different local dimensions.',
    'bounds': {'quick': 'chain lengths 2-4, local dimension 2 (one case 3), interaction rank 1-2, real and complex, 1-2 steps',
               'thorough': 'chain length 5, more inhomogeneous cases'},
    'outside': ['global convergence orders 1/2/4/6 (consequence of the verified composition + order conditions: Yoshida 1990, Kahan-Li 1997)',
                'runs with effective truncation', 'expm internals', 'rounding'],
    'assumptions': ['expm is a function of its argument'],
    'tv_per_scenario': {'quick': 1, 'thorough': 1},
}


def _components(ctx, d, n, rank, cplx, hom, tag=''):
    """S (n x n), L (n x n x rank), I (n x n), M (rank x n x n) -- homogeneous or per site"""
    I = ctx.lift(np.eye(n))
    if hom:
        S = ctx.input(tag + 'S', (n, n), cplx)
        if rank == 0:   # rank-1 interaction given as 2-d arrays (the code adds the rank axis itself)
            L = ctx.input(tag + 'L', (n, n), cplx)
            M = ctx.input(tag + 'M', (n, n), cplx)
        else:
            L = ctx.input(tag + 'L', (n, n, rank), cplx)
            M = ctx.input(tag + 'M', (rank, n, n), cplx)
        return S, L, I, M
    S = [ctx.input(tag + 'S%d' % i, (n, n), cplx) for i in range(d)]
    L = [ctx.input(tag + 'L%d' % i, (n, n, max(rank, 1)), cplx) for i in range(d)]
    M = [ctx.input(tag + 'M%d' % i, (max(rank, 1), n, n), cplx) for i in range(d)]
    Is = [ctx.lift(np.eye(n)) for _ in range(d)]
    return S, L, Is, M


def _bond_generator(ctx, S, L, I, M, i, n, hom):
    """dense (n^2 x n^2) generator of bond (i, i+1): S_i (x) I + sum_k L_i[:,:,k] (x) M_{i+1}[k,:,:]"""
    Si = S if hom else S[i]
    Li = L if hom else L[i]
    Mi = M if hom else M[i + 1]
    if Li.ndim == 2:
        Li = Li.reshape(n, n, 1)
        Mi = Mi.reshape(1, n, n)
    G = D.kron(ctx, Si, ctx.lift(np.eye(n)))
    for k in range(Li.shape[2]):
        G = D.add(ctx, G, D.kron(ctx, Li[:, :, k], Mi[k, :, :]))
    return G


def _stage_matrix(ctx, blocks, d, n, parity):
    """Kronecker embedding of the bond propagators of one parity; blocks[i] for bond i, blocks[d-1] = last-site propagator"""
    mats = []
    i = 0
    while i < d:
        if i % 2 == parity and i < d - 1:
            mats.append(blocks[i])
            i += 2
        elif i == d - 1 and (d - 1) % 2 == parity:
            mats.append(blocks[d - 1])
            i += 1
        else:
            mats.append(ctx.lift(np.eye(n)) if ctx.mode != 'conc' else np.eye(n))
            i += 1
    out = mats[0]
    for m in mats[1:]:
        out = D.kron(ctx, out, m)
    return out


# --------------------------------------------------------------------- propagators
def _prop_grid(tier):
    out = []
    for d in (2, 3, 4):
        for hom in (True, False):
            for rank in (0, 1, 2):
                for cplx in (False, True):
                    if cplx and (rank == 2 or d == 4):
                        continue
                    if not hom and rank == 0:
                        continue
                    out.append({'d': d, 'n': 2, 'rank': rank, 'cplx': cplx, 'hom': hom})
    out.append({'d': 3, 'n': 3, 'rank': 1, 'cplx': False, 'hom': True})
    return out


@scenario('C10', 'propagators', _prop_grid)
def propagators(ctx, d, n, rank, cplx, hom):
    """argument of every matrix exponential == generator of the bond times coefficient times step size"""
    ode = ctx.R.ode
    prop = ode.__dict__['__splitting_propagators']
    S, L, I, M = _components(ctx, d, n, rank, cplx, hom)
    S2, L2, I2, M2 = _components(ctx, d, n, rank, cplx, hom)      # fresh copies for the oracle (the code may reshape its list entries in place)
    h = ctx.scalar('h')
    c0, c1 = ctx.scalar('c0'), ctx.scalar('c1')
    if ctx.sym:
        from symtt import state, lapack
        state.reset()
        lapack.set_policy(lapack.FreePolicy())
        K = prop(S, L, I, M, d, h, [c0, c1])
        calls = [c for c in state.S.stub_log if c.kind == 'expm']
        ctx.check('propagators: one expm per bond and one for the last site', len(calls) == d and len(K) == d)
        for i in range(d):
            c = c0 if i % 2 == 0 else c1
            if i < d - 1:
                G = _bond_generator(ctx, S2, L2, I2, M2, i, n, hom)
            else:
                G = S2 if hom else S2[d - 1]
            ctx.eq('propagators: expm argument %d == generator * coefficient[%d] * h' % (i, i % 2), calls[i].A, D.scale(ctx, c * h, G))
            ctx.check('propagators: K[%d] is the result of that expm' % i, K[i] is calls[i].E)
    else:
        K = prop(S, L, I, M, d, h, [c0, c1])
        for i in range(d):
            c = c0 if i % 2 == 0 else c1
            G = _bond_generator(ctx, S2, L2, I2, M2, i, n, hom) if i < d - 1 else (S2 if hom else S2[d - 1])
            ctx.eq('propagators: K[%d] == expm(generator * coefficient[%d] * h)' % (i, i % 2), K[i], ctx.expm(np.asarray(G) * c * h), tol=1e-9)


# --------------------------------------------------------------------------- stage
def _stage_grid(tier):
    out = []
    for d in (2, 3, 4):
        for parity in (0, 1):
            for cplx in (False, True):
                if cplx and d == 4:
                    continue
                for ranks in ([1] + [2] * (d - 1) + [1], [1] + [1 + (j % 2) for j in range(d - 1)] + [1]):
                    out.append({'d': d, 'n': 2, 'parity': parity, 'cplx': cplx, 'ranks': ranks})
    return out


@scenario('C10', 'stage', _stage_grid)
def stage(ctx, d, n, parity, cplx, ranks):
    """__splitting_stage(K, indices of one parity, state) == dense Kronecker embedding of the K's applied to the state (threshold 0)"""
    TT, ode = ctx.R.TT, ctx.R.ode
    stg = ode.__dict__['__splitting_stage']
    sx = {'rows': [n] * d, 'cols': [1] * d, 'ranks': ranks}
    Ks = [ctx.input('K%d' % i, (n * n, n * n) if i < d - 1 else (n, n), cplx) for i in range(d)]
    xd = D.as_matrix(D.tt_full(ctx, mk_cores(ctx, 'x', sx, cplx)), d)
    box = {}

    def run():
        t = TT(mk_cores(ctx, 'x', sx, cplx))
        r = stg([k for k in Ks], np.arange(parity, d, 2), t, 0, 50)
        box['r'], box['t'] = r, t
        return D.as_matrix(r.full(), d)
    ctx.chain('stage (parity %d) == embedded propagators applied to the state' % parity, run,
              lambda: D.matmul(ctx, _stage_matrix(ctx, Ks, d, n, parity), xd))
    meta_ok(ctx, 'stage result', box['r'])


# ------------------------------------------------------------------------ schedule
SCHEMES = ['lie_splitting', 'strang_splitting', 'yoshida_splitting', 'kahan_li_splitting']


@scenario('C10', 'schedule', lambda tier: [{'scheme': s, 'd': d, 'steps': st} for s in SCHEMES for d in (2, 3) for st in (1, 2)])
def schedule(ctx, scheme, d, steps):
    """which propagator set (coefficients) is applied with which parity, in which order; coefficient tables; ortho and normalisation per step"""
    TT, ode = ctx.R.TT, ctx.R.ode
    n = 2
    sx = {'rows': [n] * d, 'cols': [1] * d, 'ranks': [1] + [2] * (d - 1) + [1]}
    S, L, I, M = _components(ctx, d, n, 1, False, True)
    h = ctx.scalar('h')
    x0 = TT(mk_cores(ctx, 'x', sx, False))
    props, stages = [], []

    def fake_prop(S_, L_, I_, M_, order, step, coeffs):
        tok = ('K', len(props))
        props.append({'coeffs': list(coeffs), 'order': order, 'step': step, 'S': S_, 'L': L_, 'I': I_, 'M': M_, 'tok': tok})
        return tok

    def fake_stage(K, indices, tmp, threshold, max_rank):
        stages.append({'K': K, 'indices': [int(i) for i in indices], 'threshold': threshold, 'max_rank': max_rank, 'tmp': tmp})
        return tmp
    g = ode.__dict__
    real_p, real_s = g['__splitting_propagators'], g['__splitting_stage']
    g['__splitting_propagators'], g['__splitting_stage'] = fake_prop, fake_stage
    if ctx.sym:
        from symtt import state, lapack
        state.reset()
        lapack.set_policy(lapack.TrivPolicy())
    try:
        sol = getattr(ode, scheme)(S, L, I, M, x0, h, steps, threshold=0, max_rank=7, normalize=0)
    finally:
        g['__splitting_propagators'], g['__splitting_stage'] = real_p, real_s
    ctx.check('%s: steps + 1 states, first is the initial value itself' % scheme, len(sol) == steps + 1 and sol[0] is x0)
    # ---- coefficient tables
    ws = [float(p['coeffs'][1]) for p in props]
    ctx.check('%s: every propagator set uses coefficients [w/2, w] (Lie: [1, 1])' % scheme,
              all(abs(float(p['coeffs'][0]) - (1.0 if scheme == 'lie_splitting' else 0.5 * float(p['coeffs'][1]))) < 1e-15 for p in props))
    ctx.check('%s: propagators built for the given components, order and step size' % scheme,
              all(p['order'] == d and p['step'] is h and p['S'] is S and p['L'] is L and p['M'] is M and p['I'] is I for p in props))
    even, odd = list(range(0, d, 2)), list(range(1, d, 2))
    seq = [(s['K'][1], 'E' if s['indices'] == even else ('O' if s['indices'] == odd else '?')) for s in stages]
    if scheme == 'lie_splitting':
        exp_w, block = [1.0], ['E', 'O']
        blocks = [0]
    elif scheme == 'strang_splitting':
        exp_w, block = [1.0], ['E', 'O', 'E']
        blocks = [0]
    elif scheme == 'yoshida_splitting':
        w1 = 1.0 / (2.0 - 2.0 ** (1.0 / 3.0))
        w0 = -2.0 ** (1.0 / 3.0) * w1
        exp_w, block = [w1, w0], ['E', 'O', 'E']
        blocks = [0, 1, 0]
        ctx.check('yoshida: 2 w1 + w0 = 1 and 2 w1^3 + w0^3 = 0 (order conditions)', abs(2 * ws[0] + ws[1] - 1) < 1e-12 and abs(2 * ws[0] ** 3 + ws[1] ** 3) < 1e-12)
    else:
        exp_w, block = None, ['E', 'O', 'E']
        blocks = list(range(9)) + list(range(7, -1, -1))
        full = [ws[j] for j in blocks] if len(ws) == 9 else []
        ctx.check('kahan_li: 9 propagator sets, 17 palindromic Strang blocks', len(ws) == 9 and len(full) == 17)
        if len(ws) == 9:
            ctx.check('kahan_li: order conditions sum w = 1, sum w^3 = 0, sum w^5 = 0 (to 1e-12)',
                      abs(sum(full) - 1) < 1e-12 and abs(sum(w ** 3 for w in full)) < 1e-12 and abs(sum(w ** 5 for w in full)) < 1e-12,
                      detail=repr((sum(full) - 1, sum(w ** 3 for w in full), sum(w ** 5 for w in full))))
    if exp_w is not None:
        ctx.check('%s: coefficient table' % scheme, len(ws) == len(exp_w) and all(abs(a - b) < 1e-14 for a, b in zip(ws, exp_w)), detail=repr(ws))
    exp_seq = []
    for _ in range(steps):
        for j in blocks:
            exp_seq += [(j, p) for p in block]
    ctx.check('%s: stage sequence (propagator set, parity) per step' % scheme, seq == exp_seq, detail=repr(seq[:12]))
    ctx.check('%s: stages run without truncation parameters of their own (threshold passed through, temporary rank 2*max_rank)' % scheme,
              all(s['threshold'] == 0 and s['max_rank'] == 14 for s in stages))


# ---------------------------------------------------------------------- end to end
def _e2e_grid(tier):
    out = []
    for scheme in ('lie_splitting', 'strang_splitting'):
        for d in (2, 3, 4):
            for hom in (True, False):
                for cplx in (False, True):
                    for steps in (1, 2):
                        for normalize in (0, 2):
                            if cplx and (d > 3 or steps == 2 or not hom or (normalize and d > 2)):
                                continue
                            if steps == 2 and (d > 3 or normalize):
                                continue
                            if d == 4 and (not hom or normalize) and tier == 'quick':
                                continue
                            out.append({'scheme': scheme, 'd': d, 'hom': hom, 'cplx': cplx, 'steps': steps, 'normalize': normalize})
    out.append({'scheme': 'yoshida_splitting', 'd': 2, 'hom': True, 'cplx': False, 'steps': 1, 'normalize': 0})
    return out


@scenario('C10', 'one_step', _e2e_grid)
def one_step(ctx, scheme, d, hom, cplx, steps, normalize):
    """full integrator run == dense product, in the order of the scheme, of the SAME expm symbols embedded at their bonds"""
    TT, ode = ctx.R.TT, ctx.R.ode
    n = 2
    sx = {'rows': [n] * d, 'cols': [1] * d, 'ranks': [1] + [2] * (d - 1) + [1]}
    h = ctx.scalar('h')
    xd = D.as_matrix(D.tt_full(ctx, mk_cores(ctx, 'x', sx, cplx)), d)
    box = {}
    if scheme == 'lie_splitting':
        sets = [(1, 1)]
        order_of = [(0, 0), (0, 1)]
    elif scheme == 'strang_splitting':
        sets = [(ctx.const_frac(1, 2), 1)]
        order_of = [(0, 0), (0, 1), (0, 0)]
    else:
        w1 = 1.0 / (2.0 - 2.0 ** (1.0 / 3.0))
        w0 = -2.0 ** (1.0 / 3.0) / (2.0 - 2.0 ** (1.0 / 3.0))
        sets = [(ctx.lift(0.5 * w1), ctx.lift(w1)), (ctx.lift(-0.5 * (2.0 ** (1.0 / 3.0) / (2.0 - 2.0 ** (1.0 / 3.0)))), ctx.lift(w0))]
        order_of = [(0, 0), (0, 1), (0, 0), (1, 0), (1, 1), (1, 0), (0, 0), (0, 1), (0, 0)]

    from .C09 import NormStub

    def run():
        S, L, I, M = _components(ctx, d, n, 1, cplx, hom)
        x0 = TT(mk_cores(ctx, 'x', sx, cplx))
        with NormStub(ctx, TT) as ns:
            sol = getattr(ode, scheme)(S, L, I, M, x0, h, steps, threshold=0, max_rank=50, normalize=normalize)
        box.update(sol=sol, x0=x0, norms=ns.calls)
        return ctx.cat([D.as_matrix(t.full(), d) for t in sol])

    def spec():
        S, L, I, M = _components(ctx, d, n, 1, cplx, hom)
        mats = []
        for (ce, co) in sets:
            blocks = []
            for i in range(d):
                c = ce if i % 2 == 0 else co
                G = _bond_generator(ctx, S, L, I, M, i, n, hom) if i < d - 1 else (S if hom else S[d - 1])
                blocks.append(ctx.expm(D.scale(ctx, c * h, G) if ctx.mode != 'conc' else np.asarray(G) * c * h))
            mats.append([_stage_matrix(ctx, blocks, d, n, 0), _stage_matrix(ctx, blocks, d, n, 1)])
        xs = [xd]
        nn = iter(box['norms'])
        for _ in range(steps):
            y = xs[-1]
            for (k, parity) in order_of:
                y = D.matmul(ctx, mats[k][parity], y)
            if normalize > 0:
                y = D.scale(ctx, ctx.const_frac(1) / next(nn)['nu'], y)
            xs.append(y)
        return ctx.cat(xs)
    ctx.via('%s: trajectory == dense product of the embedded local exponentials' % scheme, run, spec,
            through=('ortho_left', 'ortho_right', 'truncated_svd'), tol=1e-7)
    sol = box['sol']
    ctx.check('%s: steps + 1 states, first is the initial value itself' % scheme, len(sol) == steps + 1 and sol[0] is box['x0'])
    if normalize > 0:
        ctx.check('%s: one norm per step with p = normalize' % scheme, len(box['norms']) == steps and all(c['p'] == normalize for c in box['norms']))
    ctx.eq('%s: initial value unchanged' % scheme, D.as_matrix(box['x0'].full(), d), xd)


# ----------------------------------------------------------------- norm preservation
@scenario('C10', 'unitary', lambda tier: [{'d': d, 'parity': p} for d in (2, 3) for p in (0, 1)])
def unitary(ctx, d, parity):
    """certificate: a stage built from unitary bond propagators is unitary, hence every scheme preserves the 2-norm for skew-Hermitian generators:
    ||P x||^2 - ||x||^2 == sum x_k conj(x_l) ((P^H P)_{lk} - delta_lk) with P the embedded stage matrix, and P^H P is the embedding of the blocks' E^H E"""
    n = 2
    Ks = [ctx.input('E%d' % i, (n * n, n * n) if i < d - 1 else (n, n), True) for i in range(d)]
    P = _stage_matrix(ctx, Ks, d, n, parity)
    grams = [D.matmul(ctx, D.conj_t(ctx, k), k) for k in Ks]
    ctx.eq('P^H P == embedding of the blocks E_i^H E_i (so unitary blocks give a unitary stage)', D.matmul(ctx, D.conj_t(ctx, P), P),
           _stage_matrix(ctx, grams, d, n, parity), form='III')


# ------------------------------------------------------------------ normalisation (all four schemes)
def _norm_grid(tier):
    out = []
    for scheme in ('lie_splitting', 'strang_splitting', 'yoshida_splitting', 'kahan_li_splitting'):
        for normalize in (1, 2):
            for d in (2, 3):
                out.append({'scheme': scheme, 'normalize': normalize, 'd': d, 'cplx': False, 'steps': 2})
        out.append({'scheme': scheme, 'normalize': 2, 'd': 2, 'cplx': True, 'steps': 1})
        out.append({'scheme': scheme, 'normalize': 0, 'd': 2, 'cplx': False, 'steps': 2})
    return out


@scenario('C10', 'normalisation', _norm_grid)
def normalisation(ctx, scheme, normalize, d, cplx, steps):
    """normalize = 1 / 2: every produced state is the un-normalised state of that step divided by its Manhattan / Euclidean TT norm (symbolic: the
    stages are replaced by the identity so that the step is cheap -- their value is the `stage`/`schedule`/`one_step` claim -- and TT.norm by a
    recording environment call; concrete replays run the unmodified integrator and check the unit norm of every state against the dense tensor)"""
    TT, ode = ctx.R.TT, ctx.R.ode
    if ctx.mode == 'tv':
        from symtt.core import SkipTV
        raise SkipTV()
    n = 2
    sx = {'rows': [n] * d, 'cols': [1] * d, 'ranks': [1] + [2] * (d - 1) + [1]}
    lo = 0 if normalize == 1 else None          # Manhattan norm: documented for non-negative entries
    label = '%s: every produced state has unit %d-norm' % (scheme, normalize)
    if normalize == 0:
        # list structure with the stages replaced by the identity: every entry is a distinct object holding the state of its own step
        from symtt import state as _st, lapack as _lp
        if ctx.sym:
            _st.reset()
            _lp.set_policy(_lp.TrivPolicy())
        S, L, I, M = _components(ctx, d, n, 1, cplx, True)
        h = ctx.scalar('h', lo=(0,))
        x0 = TT(mk_cores(ctx, 'x', sx, cplx))
        xd = D.as_matrix(D.tt_full(ctx, mk_cores(ctx, 'x', sx, cplx)), d)
        real_stage = getattr(ode, '__splitting_stage')
        cnt = [0]

        def scale_stage(K, indices, tmp, threshold, max_rank):
            cnt[0] += 1
            return tmp
        setattr(ode, '__splitting_stage', scale_stage)
        try:
            sol = getattr(ode, scheme)(S, L, I, M, x0, h, steps, threshold=0, max_rank=50, normalize=0)
        finally:
            setattr(ode, '__splitting_stage', real_stage)
        ctx.check('%s: steps + 1 distinct state objects, the first is the initial value' % scheme,
                  len(sol) == steps + 1 and sol[0] is x0 and len(set(id(t) for t in sol)) == steps + 1 and cnt[0] > 0)
        for k in range(1, len(sol)):
            ctx.eq('%s: with identity stages state %d == initial value' % (scheme, k), D.as_matrix(sol[k].full(), d), xd)
            ctx.check('%s: state %d shares no core array with another entry' % (scheme, k),
                      not any(a is b for j in range(len(sol)) if j != k for a in sol[k].cores for b in sol[j].cores))
        return
    if ctx.mode == 'conc':
        S, L, I, M = _components(ctx, d, n, 1, cplx, True)
        if normalize == 1:
            S, L, M = np.abs(S), np.abs(L), np.abs(M)
        x0 = TT([np.abs(c) if normalize == 1 else c for c in mk_cores(ctx, 'x', sx, cplx)])
        h = abs(ctx.scalar('h', lo=(0,)))
        sol = getattr(ode, scheme)(S, L, I, M, x0, h, steps, threshold=0, max_rank=50, normalize=normalize)
        ok = len(sol) == steps + 1
        worst = 0.0
        for t in sol[1:]:
            f = np.asarray(t.full()).reshape(-1)
            if normalize == 2:
                nv = float(np.linalg.norm(f))
            else:
                if np.min(np.real(f)) < -1e-12:
                    continue                     # outside the documented domain of the Manhattan norm
                nv = float(np.sum(np.real(f)))
            worst = max(worst, abs(nv - 1.0))
        ctx.check(label, ok and worst <= 1e-8, detail='max | ||x_k|| - 1 | = %.3e' % worst)
        return
    from symtt import state, lapack
    from .C09 import NormStub
    state.reset()
    lapack.set_policy(lapack.TrivPolicy())
    S, L, I, M = _components(ctx, d, n, 1, cplx, True)
    h = ctx.scalar('h', lo=(0,))
    x0 = TT(mk_cores(ctx, 'x', sx, cplx, **({'lo': 0} if lo == 0 else {})))
    xd = D.as_matrix(D.tt_full(ctx, mk_cores(ctx, 'x', sx, cplx, **({'lo': 0} if lo == 0 else {}))), d)
    stages = []
    real_stage = getattr(ode, '__splitting_stage')

    def ident(K, indices, tmp, threshold, max_rank):
        stages.append(1)
        return tmp
    setattr(ode, '__splitting_stage', ident)
    try:
        with NormStub(ctx, TT) as ns:
            sol = getattr(ode, scheme)(S, L, I, M, x0, h, steps, threshold=0, max_rank=50, normalize=normalize)
    finally:
        setattr(ode, '__splitting_stage', real_stage)
    with ctx.group(label):
        ok = ctx.check('%s: steps + 1 states and one TT.norm call per step with p = normalize' % scheme,
                       len(sol) == steps + 1 and len(ns.calls) == steps and all(c['p'] == normalize for c in ns.calls) and len(stages) > 0)
        if ok:
            cur = xd
            for k in range(steps):
                ctx.eq('%s step %d: TT.norm is applied to the un-normalised state of the step' % (scheme, k), ns.calls[k]['arg'], cur)
                cur = D.scale(ctx, ctx.const_frac(1) / ns.calls[k]['nu'], cur)
                ctx.eq('%s step %d: produced state == un-normalised state / its norm' % (scheme, k), D.as_matrix(sol[k + 1].full(), d), cur)


# ------------------------------------------------------------ neighbouring sites of different size
@scenario('C10', 'propagators_unequal', lambda tier: [{'ns': ns, 'rank': r, 'cplx': c} for ns in ([2, 3], [3, 2, 2], [2, 3, 2, 4] if tier != 'quick' else [2, 3, 2])
                                                       for r in (1, 2) for c in (False, True) if not (c and r == 2 and len(ns) > 2)])
def propagators_unequal(ctx, ns, rank, cplx):
    """site-dependent components on a chain whose sites have different local dimensions: expm argument of bond i == (S_i (x) I_{i+1} + sum_k L_i^k (x) M_{i+1}^k) c h"""
    ode = ctx.R.ode
    prop = ode.__dict__['__splitting_propagators']
    d = len(ns)

    def comps(tag=''):
        S = [ctx.input('S%d' % i, (ns[i], ns[i]), cplx) for i in range(d)]
        L = [ctx.input('L%d' % i, (ns[i], ns[i], rank), cplx) for i in range(d)]
        M = [ctx.input('M%d' % i, (rank, ns[i], ns[i]), cplx) for i in range(d)]
        I = [ctx.lift(np.eye(ns[i])) for i in range(d)]
        return S, L, I, M
    S, L, I, M = comps()
    S2, L2, I2, M2 = comps()
    h, c0, c1 = ctx.scalar('h'), ctx.scalar('c0'), ctx.scalar('c1')

    def gen(i):
        if i == d - 1:
            return S2[i]
        G = D.kron(ctx, S2[i], ctx.lift(np.eye(ns[i + 1])))
        for k in range(rank):
            G = D.add(ctx, G, D.kron(ctx, L2[i][:, :, k], M2[i + 1][k, :, :]))
        return G
    if ctx.sym:
        from symtt import state, lapack
        state.reset()
        lapack.set_policy(lapack.FreePolicy())
    K = prop(S, L, I, M, d, h, [c0, c1])
    if ctx.sym:
        calls = [c for c in state.S.stub_log if c.kind == 'expm']
        if not ctx.check('propagators: one expm per bond and one for the last site', len(calls) == d and len(K) == d):
            return
    for i in range(d):
        c = c0 if i % 2 == 0 else c1
        if ctx.sym:
            ctx.eq('propagators: expm argument %d == generator * coefficient[%d] * h' % (i, i % 2), calls[i].A, D.scale(ctx, c * h, gen(i)))
        else:
            ctx.eq('propagators: K[%d] == expm(generator * coefficient[%d] * h)' % (i, i % 2), K[i], ctx.expm(np.asarray(gen(i)) * c * h), tol=1e-9)
