"""C11 -- TDVP and Krylov propagators."""
import itertools

import numpy as np

from symtt.core import scenario, HarnessError, SkipTV
from symtt import dense as D
from .common import mk_cores, meta_ok, free_policy
from .C07 import frame

META = {
    'explanation': 'The real micro-step functions of the one-site and two-site TDVP are run from an ARBITRARY symbolic state (free complex cores with '
                   'open boundary ranks, free micro operator): the sequence of environment calls and every argument (matrix and vector of each '
                   'expm_multiply, QR/RQ/SVD argument), the new cores and ranks equal an independent dense statement of the projector-splitting integrator '
                   '(Lubich-Oseledets-Vandereycken 2015; Haegeman et al. 2016): forward exp(-i h/2 K) on the centre core, QR, backward exp(+i h/2 W^H K W) on '
                   'the bond factor, full step on the last site, mirrored sweep; two-site: evolve the MERGED PAIR, SVD OF THE EVOLVED PAIR, backward-evolve the '
                   'carried core. Drivers tdvp1site / tdvp2site / tdvp are run end to end: sweep schedule, every effective operator == P^H H P (frame of the '
                   'current iterate), list = initial state (by identity) + one state per step, normalisation, inputs unchanged. krylov: Lanczos coefficients '
                   'alpha_j == <w_j, v_j>, beta_j == ||w_j|| placed tridiagonally, argument of the small exponential == -i h T, result == sum_j (exp(-ihT) e_1)_j v_j. trajectory: the list returned for two steps starts with the list returned for one step (an entry stored for step 1 is not touched by step 2), with and without normalisation; normalised states == un-normalised state / its norm. NOT solver-decided, sampled by the validation run on a random complex Hermitian operator (scenario exactness): tdvp1site / tdvp2site at maximal ranks == exp(-i t H) x0 at every stored time, Krylov with a full Krylov space (also with a rank cap equal to the maximal TT rank) exact, norm and energy conserved by the one-site scheme at rank 1, inputs unchanged.',
    'bounds': {'quick': 'micro-steps: ranks (r1, r2[, r3]) in {1,2}, mode size 2, every position class (first/inner/last) and direction; drivers: chain lengths 2-3, '
                        'ranks {1,2}, complex Hermitian operators H = C + C^H with C of rank 1, 1-2 steps; krylov: dimension 1-2 (dimension 2 on chain length 2 only; dimension 3, and dimension 2 on chain length 3, end in an undecided look-up of the small exponential and are not claimed)',
               'thorough': 'mode size 3 micro-steps, chain length 4 drivers'},
    'outside': ['exactness at maximal ranks / with a full Krylov space and norm/energy conservation are theorems about the reference scheme decided here '
                '(the unitary/Hermitian structure of expm is not modelled); not solver-checked', 'truncation inside tdvp2site (threshold > 0)', 'rounding'],
    'assumptions': ['expm_multiply(A, v) = expm(A) v with expm a function of its argument'],
    'tv_per_scenario': {'quick': 1, 'thorough': 1},
    'tv_all': ['exactness'],
}


def _mk_state(ctx, ranks, n, name='c'):
    """TT-like object with open boundary ranks (the micro-step functions only use .cores/.ranks/.row_dims/.order)"""
    TT = ctx.R.TT
    d = len(ranks) - 1
    cores = [ctx.input('%s%d' % (name, i), (ranks[i], n, 1, ranks[i + 1]), True) for i in range(d)]
    t = TT.__new__(TT)
    t.order, t.row_dims, t.col_dims, t.ranks, t.cores = d, [n] * d, [1] * d, list(ranks), cores
    return t


def _I(ctx):
    return ctx.I


def _embed_left(ctx, Q, r2):
    """W = Q (x) I_{r2}:  (r1 n r2) x (k r2)"""
    m, k = Q.shape
    W = ctx.zeros((m * r2, k * r2))
    for x in range(m):
        for b in range(r2):
            for kk in range(k):
                D._set(W, (x * r2 + b, kk * r2 + b), D._get(Q, (x, kk)))
    return W


def _embed_right(ctx, Q, r1):
    """W = I_{r1} (x) Q^T-like embedding for the RQ factor Q (k x n r2): columns index (a, k), rows (a, n r2)"""
    k, m = Q.shape
    W = ctx.zeros((r1 * m, r1 * k))
    for a in range(r1):
        for kk in range(k):
            for y in range(m):
                D._set(W, (a * m + y, a * k + kk), D._get(Q, (kk, y)))
    return W


# ------------------------------------------------------------------ one-site micro-step
def _ms1_grid(tier):
    out = []
    for r1, r2, r3 in itertools.product((1, 2), repeat=3):
        for pos in ('first', 'inner', 'last'):
            for direction in ('forward', 'backward'):
                out.append({'r1': r1 if pos != 'first' else 1, 'r2': r2, 'r3': r3, 'n': 2, 'pos': pos, 'direction': direction})
    seen, res = set(), []
    for p in out:
        if repr(p) not in seen:
            seen.add(repr(p))
            res.append(p)
    return res


@scenario('C11', 'microstep_1site', _ms1_grid)
def microstep_1site(ctx, r1, r2, r3, n, pos, direction):
    """__update_core_tdvp from an arbitrary state == reference projector-splitting micro-step"""
    ode = ctx.R.ode
    upd = ode.__dict__['__update_core_tdvp']
    # three-site window: [prev] centre [next]; position decides which neighbours exist
    if pos == 'first':
        ranks, i = [1, r2, r3], 0
    elif pos == 'last':
        ranks, i = [r1, r2, 1], 1
    else:
        ranks, i = [r1, r2, r3, 1], 1
    if pos == 'last' and direction == 'forward':
        pass
    sol = _mk_state(ctx, ranks, n)
    old = [c.copy() for c in sol.cores]
    d = sol.order
    R1, R2 = ranks[i], ranks[i + 1]
    K = R1 * n * R2
    H = ctx.input('K', (K, K), True)
    h = ctx.scalar('h')
    free_policy(ctx)
    if not ctx.sym:
        # concrete: compare with an independent numpy implementation of the same reference step
        if ctx.mode == 'tv':
            raise SkipTV()
        import scipy.linalg as sl
        upd(i, np.array(H), sol, h, direction)
        c = old[i].reshape(-1)
        exp_cores = [x.copy() for x in old]
        if direction == 'forward':
            if i < d - 1:
                c1 = sl.expm(-1j * h * 0.5 * H) @ c
                q, r = np.linalg.qr(c1.reshape(R1 * n, R2))
                W = np.kron(q, np.eye(R2))
                r1_ = sl.expm(1j * h * 0.5 * (W.conj().T @ H @ W)) @ r.reshape(-1)
                val = np.tensordot(q.reshape(R1, n, 1, -1), np.tensordot(r1_.reshape(-1, R2), old[i + 1], axes=(1, 0)), axes=(3, 0))
                got = np.tensordot(sol.cores[i], sol.cores[i + 1], axes=(3, 0))
                ctx.eq('forward micro-step: evolved pair (gauge-invariant contraction of core i and i+1)', got, val, tol=1e-8)
            else:
                ctx.eq('forward micro-step on the last core: full step', sol.cores[i].reshape(-1), sl.expm(-1j * h * H) @ c, tol=1e-8)
        else:
            if i > 0:
                c1 = sl.expm(-1j * h * 0.5 * H) @ c if i < d - 1 else c
                M = c1.reshape(R1, n * R2)
                q, r = np.linalg.qr(M.T)          # M = r^T q^T
                Q, Rm = q.T, r.T
                W = np.kron(np.eye(R1), Q.T)
                r1_ = sl.expm(1j * h * 0.5 * (W.conj().T @ H @ W)) @ Rm.reshape(-1)
                val = np.tensordot(np.tensordot(old[i - 1], r1_.reshape(R1, -1), axes=(3, 0)), Q.reshape(-1, n, 1, R2), axes=(3, 0))
                got = np.tensordot(sol.cores[i - 1], sol.cores[i], axes=(3, 0))
                ctx.eq('backward micro-step: evolved pair (gauge-invariant contraction of core i-1 and i)', got, val, tol=1e-8)
            else:
                ctx.eq('backward micro-step on the first core: half step', sol.cores[i].reshape(-1), sl.expm(-1j * h * 0.5 * H) @ c, tol=1e-8)
        return
    from symtt import state
    if direction == 'forward':
        glabel = 'forward micro-step on the last core: full step' if i == d - 1 else 'forward micro-step: evolved pair (gauge-invariant contraction of core i and i+1)'
    else:
        glabel = 'backward micro-step on the first core: half step' if i == 0 else 'backward micro-step: evolved pair (gauge-invariant contraction of core i-1 and i)'
    with ctx.group(glabel):
        _ms1_symbolic(ctx, upd, i, H, sol, h, direction, d, n, ranks, R1, R2, old)


def _ms1_symbolic(ctx, upd, i, H, sol, h, direction, d, n, ranks, R1, R2, old):
    from symtt import state
    upd(i, H, sol, h, direction)
    log = [c for c in state.S.stub_log if c.kind in ('expm_multiply', 'qr', 'rq')]
    kinds = [c.kind for c in log]
    I = ctx.I
    half = ctx.const_frac(1, 2)
    c0 = old[i].reshape(-1)
    if direction == 'forward' and i == d - 1:
        ctx.check('last core, forward: a single exponential', kinds == ['expm_multiply'])
        ctx.eq('last core, forward: generator == -i h K (full step)', log[0].A, D.scale(ctx, ctx.const_frac(-1) * I * h, H))
        ctx.eq('last core, forward: applied to the centre core', log[0].v, c0)
        ctx.eq('last core, forward: new core is the result', sol.cores[i].reshape(-1), log[0].r0)
        ctx.check('ranks unchanged', sol.ranks == ranks)
        return
    if direction == 'backward' and i == 0:
        ctx.check('first core, backward: a single exponential', kinds == ['expm_multiply'])
        ctx.eq('first core, backward: generator == -i h/2 K', log[0].A, D.scale(ctx, ctx.const_frac(-1) * I * h * half, H))
        ctx.eq('first core, backward: applied to the centre core', log[0].v, c0)
        ctx.eq('first core, backward: new core is the result', sol.cores[i].reshape(-1), log[0].r0)
        return
    evolve_first = not (direction == 'backward' and i == d - 1)
    want = (['expm_multiply'] if evolve_first else []) + ['qr' if direction == 'forward' else 'rq', 'expm_multiply']
    ctx.check('%s micro-step: environment calls %s' % (direction, want), kinds == want, detail=repr(kinds))
    if kinds != want:
        return
    k = 0
    cur = c0
    if evolve_first:
        ctx.eq('forward half step: generator == -i h/2 K', log[0].A, D.scale(ctx, ctx.const_frac(-1) * I * h * half, H))
        ctx.eq('forward half step: applied to the centre core', log[0].v, c0)
        cur = log[0].r0
        k = 1
    fac = log[k]
    back = log[k + 1]
    if direction == 'forward':
        ctx.eq('QR argument == evolved centre core as (r1 n) x r2', fac.a, cur.reshape(R1 * n, R2))
        Q, Rf = fac.Q, fac.R
        kk = Q.shape[1]
        W = _embed_left(ctx, Q, R2)
        Kb = D.matmul(ctx, D.conj_t(ctx, W), D.matmul(ctx, H, W))
        ctx.eq('backward half step: generator == +i h/2 W^H K W with W = Q (x) I', back.A, D.scale(ctx, I * h * half, Kb))
        ctx.eq('backward half step: applied to the bond factor R', back.v, Rf.reshape(-1))
        ctx.eq('core i == Q', sol.cores[i], Q.reshape(R1, n, 1, kk))
        Rn = back.r0.reshape(kk, R2)
        ctx.eq('core i+1 == evolved R contracted into the old core i+1', sol.cores[i + 1], D.tensordot_dense(ctx, Rn, [1], old[i + 1], [0]))
        ctx.check('rank bookkeeping', sol.ranks == ranks[:i + 1] + [kk] + ranks[i + 2:])
    else:
        ctx.eq('RQ argument == (evolved) centre core as r1 x (n r2)', fac.a, cur.reshape(R1, n * R2))
        Rf, Q = fac.R, fac.Q
        kk = Q.shape[0]
        W = _embed_right(ctx, Q, R1)
        # the code builds W = I_{r1} (x) Q with columns (a, k): check against the generic embedding
        Kb = D.matmul(ctx, D.conj_t(ctx, W), D.matmul(ctx, H, W))
        ctx.eq('backward half step: generator == +i h/2 W^H K W with W = I (x) Q', back.A, D.scale(ctx, I * h * half, Kb))
        ctx.eq('backward half step: applied to the bond factor R', back.v, Rf.reshape(-1))
        ctx.eq('core i == Q', sol.cores[i], Q.reshape(kk, n, 1, R2))
        Rn = back.r0.reshape(R1, kk)
        ctx.eq('core i-1 == old core i-1 contracted with the evolved R', sol.cores[i - 1], D.tensordot_dense(ctx, old[i - 1], [3], Rn, [0]))
        ctx.check('rank bookkeeping', sol.ranks == ranks[:i] + [kk] + ranks[i + 1:])


# ------------------------------------------------------------------ two-site micro-step
def _ms2_grid(tier):
    out = []
    for r1, r3 in itertools.product((1, 2), repeat=2):
        for r2 in (1, 2):
            for pos in ('first', 'inner', 'last'):
                for direction in ('forward', 'backward'):
                    out.append({'r1': r1 if pos != 'first' else 1, 'r2': r2, 'r3': r3 if pos != 'last' else 1, 'n': 2, 'pos': pos, 'direction': direction})
    seen, res = set(), []
    for p in out:
        if repr(p) not in seen:
            seen.add(repr(p))
            res.append(p)
    return res


def _diag(ctx, s):
    k = s.shape[0]
    out = ctx.zeros((k, k))
    for i in range(k):
        D._set(out, (i, i), D._get(s, (i,)))
    return out


@scenario('C11', 'microstep_2site', _ms2_grid)
def microstep_2site(ctx, r1, r2, r3, n, pos, direction):
    """__update_core_tdvp2site from an arbitrary state: the MERGED pair is evolved, the SVD is taken OF THE EVOLVED pair, the carried core is evolved back"""
    ode = ctx.R.ode
    upd = ode.__dict__['__update_core_tdvp2site']
    if pos == 'first':
        ranks, i = [1, r2, r3, 1], 0          # pair (0,1), a further core to the right
    elif pos == 'last':
        ranks, i = [1, r1, r2, 1], 1          # pair (1,2) is the last pair, a core to the left
    else:
        ranks, i = [1, r1, r2, r3, 1], 1      # pair (1,2), cores on both sides
    sol = _mk_state(ctx, ranks, n)
    old = [c.copy() for c in sol.cores]
    d = sol.order
    R1, R3 = ranks[i], ranks[i + 2]
    K = R1 * n * n * R3
    H = ctx.input('K', (K, K), True)
    h = ctx.scalar('h')
    I = ctx.I
    half = ctx.const_frac(1, 2)
    pair = D.tensordot_dense(ctx, old[i][:, :, 0, :], [2], old[i + 1][:, :, 0, :], [0])      # (R1, n, n, R3)
    if not ctx.sym:
        if ctx.mode == 'tv':
            raise SkipTV()
        import scipy.linalg as sl
        upd(i, np.array(H), sol, h, 0, np.inf, direction)
        ev = (sl.expm(-1j * h * 0.5 * np.asarray(H)) @ np.asarray(pair).reshape(-1)).reshape(R1 * n, n * R3)
        u, s, v = np.linalg.svd(ev, full_matrices=False)
        got = np.tensordot(sol.cores[i][:, :, 0, :], sol.cores[i + 1][:, :, 0, :], axes=(2, 0))
        if direction == 'forward' and i < d - 2:
            W = np.kron(u, np.eye(n * R3))
            # embedding u (x) I_n (x) I_r3 restricted appropriately: build as in the reference
            U3 = np.tensordot(np.tensordot(u, np.eye(n), axes=0), np.eye(R3), axes=0).transpose([0, 2, 4, 1, 3, 5]).reshape(K, -1)
            c = sl.expm(1j * h * 0.5 * (U3.conj().T @ np.asarray(H) @ U3)) @ (np.diag(s) @ v).reshape(-1)
            val = np.tensordot(u.reshape(R1, n, -1), c.reshape(-1, n, R3), axes=(2, 0))
        elif direction == 'backward' and i > 0:
            V3 = np.tensordot(np.eye(R1), np.tensordot(np.eye(n), v, axes=0), axes=0).transpose([0, 2, 5, 1, 3, 4]).reshape(K, -1)
            c = sl.expm(1j * h * 0.5 * (V3.conj().T @ np.asarray(H) @ V3)) @ (u @ np.diag(s)).reshape(-1)
            val = np.tensordot(c.reshape(R1, n, -1), v.reshape(-1, n, R3), axes=(2, 0))
        else:
            val = ev.reshape(R1, n, n, R3)
        ctx.eq('two-site micro-step (%s): pair after the step == reference' % direction, got, val, tol=1e-8)
        return
    with ctx.group('two-site micro-step (%s): pair after the step == reference' % direction):
        _ms2_symbolic(ctx, upd, i, H, sol, h, direction, d, n, ranks, R1, R3, K, pair, old)


def _ms2_symbolic(ctx, upd, i, H, sol, h, direction, d, n, ranks, R1, R3, K, pair, old):
    from symtt import state
    I = ctx.I
    half = ctx.const_frac(1, 2)
    free_policy(ctx)
    upd(i, H, sol, h, 0, np.inf, direction)
    log = [c for c in state.S.stub_log if c.kind in ('expm_multiply', 'svd')]
    kinds = [c.kind for c in log]
    back_needed = (direction == 'forward' and i < d - 2) or (direction == 'backward' and i > 0)
    want = ['expm_multiply', 'svd'] + (['expm_multiply'] if back_needed else [])
    ctx.check('two-site %s micro-step: environment calls %s' % (direction, want), kinds == want, detail=repr(kinds))
    if kinds != want:
        return
    ctx.eq('pair evolution: generator == -i h/2 K', log[0].A, D.scale(ctx, ctx.const_frac(-1) * I * h * half, H))
    ctx.eq('pair evolution: applied to the merged pair', log[0].v, pair.reshape(-1))
    ctx.eq('SVD argument == the EVOLVED pair as (r1 n) x (n r3)', log[1].a, log[0].r0.reshape(R1 * n, n * R3))
    U, s, Vh = log[1].U, log[1].s, log[1].Vh
    kk = s.shape[0]
    ctx.check('rank bookkeeping', sol.ranks == ranks[:i + 1] + [kk] + ranks[i + 2:])
    SV = D.matmul(ctx, _diag(ctx, s), Vh)
    US = D.matmul(ctx, U, _diag(ctx, s))
    if direction == 'forward':
        ctx.eq('core i == U', sol.cores[i], U.reshape(R1, n, 1, kk))
        if back_needed:
            W = ctx.zeros((K, kk * n * R3))
            for x in range(R1 * n):
                for y in range(n * R3):
                    for a in range(kk):
                        D._set(W, (x * n * R3 + y, a * n * R3 + y), D._get(U, (x, a)))
            Kb = D.matmul(ctx, D.conj_t(ctx, W), D.matmul(ctx, H, W))
            ctx.eq('backward half step: generator == +i h/2 W^H K W, W = U (x) I (x) I', log[2].A, D.scale(ctx, I * h * half, Kb))
            ctx.eq('backward half step: applied to diag(s) Vh', log[2].v, SV.reshape(-1))
            ctx.eq('core i+1 == back-evolved diag(s) Vh', sol.cores[i + 1].reshape(-1), log[2].r0)
        else:
            ctx.eq('core i+1 == diag(s) Vh (last pair: no backward step)', sol.cores[i + 1], SV.reshape(kk, n, 1, R3))
    else:
        ctx.eq('core i+1 == Vh', sol.cores[i + 1], Vh.reshape(kk, n, 1, R3))
        if back_needed:
            W = ctx.zeros((K, R1 * n * kk))
            for x in range(R1 * n):
                for y in range(n * R3):
                    for a in range(kk):
                        D._set(W, (x * n * R3 + y, x * kk + a), D._get(Vh, (a, y)))
            Kb = D.matmul(ctx, D.conj_t(ctx, W), D.matmul(ctx, H, W))
            ctx.eq('backward half step: generator == +i h/2 W^H K W, W = I (x) I (x) Vh', log[2].A, D.scale(ctx, I * h * half, Kb))
            ctx.eq('backward half step: applied to U diag(s)', log[2].v, US.reshape(-1))
            ctx.eq('core i == back-evolved U diag(s)', sol.cores[i].reshape(-1), log[2].r0)
        else:
            ctx.eq('core i == U diag(s) (first pair: no backward step)', sol.cores[i], US.reshape(R1, n, 1, kk))


# ----------------------------------------------------------------------------- drivers
DRV_SHAPES = [
    {'dims': [2, 2], 'rx': [1, 2, 1]},
    {'dims': [2, 2], 'rx': [1, 1, 1]},
    {'dims': [2, 2, 2], 'rx': [1, 2, 1, 1]},
    {'dims': [2, 2, 2], 'rx': [1, 1, 2, 1]},
]


def _herm(ctx, d, dims, cplx=True):
    sA = {'rows': dims, 'cols': dims, 'ranks': [1] * (d + 1)}
    C = ctx.R.TT(mk_cores(ctx, 'A', sA, cplx))
    Cd = D.as_matrix(D.tt_full(ctx, mk_cores(ctx, 'A', sA, cplx)), d)
    return C + C.transpose(conjugate=True), D.add(ctx, Cd, D.conj_t(ctx, Cd))


class StepRec(object):
    def __init__(self, ode, names):
        self.ode, self.names = ode, names
        self.calls = []

    def __enter__(self):
        self.orig = {}
        for nm in self.names:
            self.orig[nm] = self.ode.__dict__[nm]

            def mk(nm):
                def wrapped(i, micro_op, solution, *rest):
                    self.calls.append({'fn': nm, 'i': i, 'op': micro_op.copy(), 'cores': [c for c in solution.cores], 'ranks': list(solution.ranks),
                                       'direction': rest[-1], 'rest': rest})
                    return self.orig[nm](i, micro_op, solution, *rest)
                return wrapped
            self.ode.__dict__[nm] = mk(nm)
        return self

    def __exit__(self, *a):
        for nm in self.names:
            self.ode.__dict__[nm] = self.orig[nm]


def _drv_grid(tier):
    out = []
    for s in DRV_SHAPES:
        for method in ('tdvp1site', 'tdvp2site', 'tdvp'):
            for steps in (1, 2):
                for normalize in (0, 2):
                    if steps == 2 and (normalize or len(s['dims']) > 2):
                        continue
                    if normalize and len(s['dims']) > 2:
                        continue
                    out.append({'shape': s, 'method': method, 'steps': steps, 'normalize': normalize})
    return out


@scenario('C11', 'drivers', _drv_grid)
def drivers(ctx, shape, method, steps, normalize):
    """end-to-end run: schedule, effective operators == P^H H P, list structure, normalisation, inputs unchanged"""
    TT, ode = ctx.R.TT, ctx.R.ode
    d = len(shape['dims'])
    sx = {'rows': shape['dims'], 'cols': [1] * d, 'ranks': shape['rx']}
    h = ctx.scalar('h')
    from .C09 import NormStub
    free_policy(ctx)
    H, Hd = _herm(ctx, d, shape['dims'])
    x0 = TT(mk_cores(ctx, 'x', sx, True))
    x0d = D.as_matrix(D.tt_full(ctx, mk_cores(ctx, 'x', sx, True)), d)
    with StepRec(ode, ['__update_core_tdvp', '__update_core_tdvp2site']) as rec:
        with NormStub(ctx, TT) as ns:
            if method == 'tdvp1site':
                sol = ode.tdvp1site(H, x0, h, steps, normalize=normalize)
            elif method == 'tdvp2site':
                sol = ode.tdvp2site(H, x0, h, steps, threshold=0, max_rank=50, normalize=normalize)
            else:
                sol = ode.tdvp(H, x0, h, steps, threshold=0, max_rank=50, normalize=normalize)
    ctx.check('%s: initial state (by identity) followed by one state per step' % method, len(sol) == steps + 1 and sol[0] is x0)
    for t in sol[1:]:
        meta_ok(ctx, method + ' state', t)
    sched = [(c['fn'][-5:] == '2site', c['i'], c['direction']) for c in rec.calls]
    if method == 'tdvp1site':
        exp = []
        for _ in range(steps):
            exp += [(False, i, 'forward') for i in range(d)] + [(False, i, 'backward') for i in range(d - 1, -1, -1)]
        ctx.check('tdvp1site: sweep schedule', sched == exp, detail=repr(sched))
    elif method == 'tdvp2site':
        exp = []
        for _ in range(steps):
            exp += [(True, i, 'forward') for i in range(d - 1)] + [(True, i, 'backward') for i in range(d - 2, -1, -1)]
        ctx.check('tdvp2site: sweep schedule', sched == exp, detail=repr(sched))
    else:
        ctx.check('tdvp (hybrid): every bond is visited in both directions', len(sched) >= 2 * (d - 1) * steps, detail=repr(sched))
    for k, c in enumerate(rec.calls):
        width = 2 if c['fn'].endswith('2site') else 1
        P = frame(ctx, c['cores'], c['i'], width, c['ranks'], shape['dims'])
        ctx.eq('%s call %d (core %d, %s): effective operator == P^H H P' % (method, k, c['i'], c['direction']), c['op'],
               D.matmul(ctx, D.conj_t(ctx, P), D.matmul(ctx, Hd, P)))
        ctx.check('%s call %d: step size handed to the micro-step' % (method, k), c['rest'][0] is h or c['rest'][0] == h)
    if normalize:
        ctx.check('%s: one norm per step, p = normalize' % method, len(ns.calls) == steps and all(c['p'] == normalize for c in ns.calls))
    ctx.eq('%s: operator unchanged' % method, D.as_matrix(H.full(), d), Hd)
    ctx.eq('%s: initial state unchanged' % method, D.as_matrix(x0.full(), d), x0d)


# ------------------------------------------------------------ trajectory: earlier entries are final
@scenario('C11', 'trajectory', lambda tier: [{'shape': s, 'method': m, 'normalize': nz} for s in (DRV_SHAPES[0], DRV_SHAPES[2]) for m in ('tdvp1site', 'tdvp2site')
                                              for nz in (0, 1, 2) if not (len(s['dims']) > 2 and (nz == 1 or m == 'tdvp2site') and tier == 'quick')])
def trajectory(ctx, shape, method, normalize):
    """the list returned for two steps starts with the list returned for one step: the state stored for step 1 is not touched by step 2
    (same environment answers in both runs: stubs are functions of the call sequence); every returned state is a distinct object.
    The hybrid driver is not run here (it raises on these chain lengths: known finding of the `drivers` scenario)."""
    TT, ode = ctx.R.TT, ctx.R.ode
    if ctx.mode == 'tv':
        from symtt.core import SkipTV
        raise SkipTV()
    d = len(shape['dims'])
    sx = {'rows': shape['dims'], 'cols': [1] * d, 'ranks': shape['rx']}
    from .C09 import NormStub

    def go(steps):
        free_policy(ctx)
        h = ctx.scalar('h')
        H, Hd = _herm(ctx, d, shape['dims'])
        x0 = TT(mk_cores(ctx, 'x', sx, True))
        with NormStub(ctx, TT) as ns:
            if method == 'tdvp1site':
                sol = ode.tdvp1site(H, x0, h, steps, normalize=normalize)
            else:
                sol = ode.tdvp2site(H, x0, h, steps, threshold=0, max_rank=50, normalize=normalize)
        return sol, [D.as_matrix(t.full(), d) for t in sol], ns.calls
    sol1, v1, n1 = go(1)
    sol2, v2, n2 = go(2)
    ctx.check('%s: 2 steps give 3 states, all distinct objects' % method, len(sol2) == 3 and len(set(id(t) for t in sol2)) == 3)
    ctx.eq('%s(normalize=%d): state stored for step 1 of a two-step run == result of the one-step run' % (method, normalize), v2[1], v1[1], tol=1e-9)
    if normalize and len(n2) == 2:
        for k in range(2):
            ctx.eq('%s(normalize=%d): state %d == un-normalised state of that step / its norm' % (method, normalize, k + 1), v2[k + 1],
                   D.scale(ctx, ctx.const_frac(1) / n2[k]['nu'], n2[k]['arg']), tol=1e-9)


# ------------------------------------------------------------------------------ krylov
@scenario('C11', 'krylov', lambda tier: [{'shape': s, 'dim': k, 'cplx': k == 1} for s in DRV_SHAPES[:3] for k in (1, 2) if not (k == 2 and len(s['dims']) > 2)])
def krylov(ctx, shape, dim, cplx):
    """Lanczos coefficients, tridiagonal placement, small exponential, linear combination of the Krylov tensors"""
    TT, ode = ctx.R.TT, ctx.R.ode
    d = len(shape['dims'])
    sx = {'rows': shape['dims'], 'cols': [1] * d, 'ranks': shape['rx']}
    h = ctx.scalar('h')
    from .C09 import NormStub
    box = {}
    Hd_box = {}

    def run():
        H, Hd = _herm(ctx, d, shape['dims'], cplx)
        Hd_box['Hd'] = Hd
        x0 = TT(mk_cores(ctx, 'x', sx, cplx))
        with NormStub(ctx, TT, prefix='beta') as ns:
            sol = ode.krylov(H, x0, dim, h, threshold=0, max_rank=50, normalize=0)
        box.update(sol=sol, norms=ns.calls, x0=x0, H=H)
        if ctx.sym:
            from symtt import state
            box['em'] = [c for c in state.S.stub_log if c.kind == 'expm_multiply']
        return D.as_matrix(sol.full(), d)

    def spec():
        Hd = Hd_box['Hd']
        x0d = D.as_matrix(D.tt_full(ctx, mk_cores(ctx, 'x', sx, cplx)), d)
        vs = [x0d]
        T = ctx.zeros((dim, dim))
        w = D.matmul(ctx, Hd, vs[-1])
        alpha = D._get(D.matmul(ctx, D.conj_t(ctx, w), vs[-1]), (0, 0))
        D._set(T, (0, 0), alpha)
        w = D.sub(ctx, w, D.scale(ctx, alpha, vs[-1]))
        for j in range(1, dim):
            beta = box['norms'][j - 1]['nu']
            box.setdefault('wspec', []).append(w)
            D._set(T, (j, j - 1), beta)
            D._set(T, (j - 1, j), beta)
            vs.append(D.scale(ctx, ctx.const_frac(1) / beta, w))
            w = D.matmul(ctx, Hd, vs[-1])
            alpha = D._get(D.matmul(ctx, D.conj_t(ctx, w), vs[-1]), (0, 0))
            D._set(T, (j, j), alpha)
            w = D.sub(ctx, D.sub(ctx, w, D.scale(ctx, alpha, vs[-1])), D.scale(ctx, beta, vs[-2]))
        box['T'] = T
        e1 = ctx.zeros((dim,))
        D._set(e1, (0,), ctx.const_frac(1))
        coef = _expm_mult(ctx, D.scale(ctx, ctx.const_frac(-1) * ctx.I * h, T), e1)
        out = None
        for j in range(dim):
            term = D.scale(ctx, D._get(coef, (j,)), vs[j])
            out = term if out is None else D.add(ctx, out, term)
        return out
    ctx.via('krylov: result == sum_j (exp(-i h T) e_1)_j v_j with the Lanczos T and v_j', run, spec, tol=1e-7)
    if ctx.sym:
        ctx.check('krylov: one small exponential', len(box['em']) == 1)
        if box['em']:
            ctx.eq('krylov: generator of the small exponential == -i h T (tridiagonal Lanczos matrix)', box['em'][0].A,
                   D.scale(ctx, ctx.const_frac(-1) * ctx.I * h, box['T']))
        for j, w in enumerate(box.get('wspec', [])):
            ctx.eq('krylov: beta_%d is the norm of the orthogonalised w_%d' % (j + 1, j), box['norms'][j]['arg'], w)
    ctx.check('krylov: %d norms for dimension %d' % (dim - 1, dim), len(box['norms']) == dim - 1)
    meta_ok(ctx, 'krylov result', box['sol'])


def _expm_mult(ctx, A, v):
    if ctx.mode == 'conc':
        import scipy.linalg as sl
        return sl.expm(np.asarray(A)) @ np.asarray(v)
    from symtt import lapack
    from symtt.array import asobj, dot
    E = lapack.policy().expm(asobj(A))
    return dot(E, asobj(v))


# ------------------------------- exactness on representable dynamics, conservation (concrete only)
@scenario('C11', 'exactness', lambda tier: [{'dims': dims, 'method': m} for dims in ([2, 2, 2], [2, 3, 2]) for m in ('tdvp1site', 'tdvp2site', 'krylov', 'krylov_tight')])
def exactness(ctx, dims, method):
    """NOT a solver verdict (theorems about the reference scheme): on a random complex Hermitian operator the validation run checks the property's
    own sentences numerically -- at maximal ranks the one-site / two-site integrators reproduce exp(-i t H) x0, the Krylov propagator with a full
    Krylov space is exact, the one-site scheme conserves norm and energy at low rank, operator and initial state unchanged, list structure"""
    TT, ode = ctx.R.TT, ctx.R.ode
    if ctx.mode == 'tv':
        raise SkipTV()
    if ctx.sym:
        ctx.held('exactness at maximal ranks / conservation are checked numerically by the validation run of this scenario (sampling, stated in the evidence)')
        return
    import scipy.linalg as sl
    d = len(dims)
    rng = np.random.RandomState(5 + sum(dims))
    rk = [1] + [2] * (d - 1) + [1]
    C = TT([rng.randn(rk[i], dims[i], dims[i], rk[i + 1]) + 1j * rng.randn(rk[i], dims[i], dims[i], rk[i + 1]) for i in range(d)])
    H = 0.5 * (C + C.transpose(conjugate=True))
    Hd = np.asarray(H.matricize())
    rmax = [1] + [min(int(np.prod(dims[:i])), int(np.prod(dims[i:]))) for i in range(1, d)] + [1]

    def state(r):
        t = TT([rng.randn(r[i], dims[i], 1, r[i + 1]) + 1j * rng.randn(r[i], dims[i], 1, r[i + 1]) for i in range(d)])
        t = t.ortho_right()
        return (1 / t.norm()) * t
    h, steps = 0.05, 3
    x0 = state(rmax)
    x0d = np.asarray(x0.matricize()).reshape(-1)
    Hd0 = Hd.copy()
    if method in ('krylov', 'krylov_tight'):
        N = Hd.shape[0]
        # 'tight': the rank cap equals the maximal TT rank of the state space -- binding for the intermediate sums, admissible for every state
        out = ode.krylov(H, x0, N, h, threshold=1e-14, max_rank=64 if method == 'krylov' else max(rmax), normalize=0)
        method = 'krylov'
        ref = sl.expm(-1j * h * Hd) @ x0d
        ctx.eq('krylov with a Krylov space spanning the whole state space == exp(-i h H) x0', np.asarray(out.matricize()).reshape(-1), ref, tol=1e-8)
    else:
        fn = getattr(ode, method)
        sol = fn(H, x0, h, steps) if method == 'tdvp1site' else fn(H, x0, h, steps, threshold=1e-14, max_rank=64)
        ctx.check('%s: initial state (by identity) followed by one state per step' % method, len(sol) == steps + 1 and sol[0] is x0)
        got = np.array([np.asarray(t.matricize()).reshape(-1) for t in sol])
        ref = np.array([sl.expm(-1j * h * k * Hd) @ x0d for k in range(steps + 1)])
        ctx.eq('%s at maximal ranks == exp(-i t H) x0 at every stored time' % method, got, ref, tol=1e-8)
        if method == 'tdvp1site':
            xl = state([1] + [1] * (d - 1) + [1])
            sol2 = ode.tdvp1site(H, xl, h, steps)
            nr = [float(np.linalg.norm(np.asarray(t.matricize()))) for t in sol2]
            en = [float(np.real(np.vdot(np.asarray(t.matricize()).reshape(-1), Hd @ np.asarray(t.matricize()).reshape(-1)))) for t in sol2]
            ctx.eq('tdvp1site conserves the norm at low rank', np.array(nr), np.full(len(nr), nr[0]), tol=1e-9)
            ctx.eq('tdvp1site conserves the energy at low rank', np.array(en), np.full(len(en), en[0]), tol=1e-9)
    ctx.eq('%s: operator unchanged' % method, np.asarray(H.matricize()), Hd0, tol=0.0)
    ctx.eq('%s: initial state unchanged' % method, np.asarray(x0.matricize()).reshape(-1), x0d, tol=0.0)
