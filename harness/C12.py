"""C12 -- Markov operators built from reactions (SLIM) or transitions (Ulam)."""
import itertools

import numpy as np

from symtt.core import scenario, HarnessError
from symtt import dense as D
from .common import meta_ok

META = {
    'explanation': 'slim_mme / slim_mme_hom are executed with SYMBOLIC positive reaction rates on concrete reaction lists (every reactant/product '
                   'pair inside the state space is enumerated as a list entry); the matricised TT operator equals, entry by entry and for all rates, the '
                   'master-equation generator obtained by state enumeration (cut-point chain over the one SVD per bond); corollaries decided on the same '
                   'terms: all column sums vanish identically, every off-diagonal entry is a sum of rates (non-negative for positive rates). Open and cyclic '
                   'chains, equal and different cell sizes, homogeneous shortcut. ulam_2d/ulam_3d: integer transition tables are concrete (enumerated, NOT '
                   'solver-decided -- the tables drive np.unique); the number of simulations is symbolic and every matricised entry equals count/simulations. Reaction lists in which the same elementary transition occurs more than once (independent mechanisms) and null reactions are part of the grid.',
    'bounds': {'quick': 'chains of 2-3 cells with sizes in {2,3,4} (equal and different), 0-2 single-cell and 0-2 two-cell reactions per cell/bond drawn from all '
                        'in-range (reactant, product) pairs by a deterministic stride, open and cyclic; Ulam: all tables with <= 2 transitions on a 2x2 grid (2d), '
                        'a stride through <= 3 transitions (2d) and <= 2 transitions on 2x2x2 (3d)',
               'thorough': 'more reaction lists, 4 cells'},
    'outside': ['Ulam transition tables as symbolic integers (np.unique on symbolic data is not modelled): that part is bounded enumeration', 'threshold > 0 in the SLIM SVD', 'rounding'],
    'assumptions': ['reaction products stay inside the state space (documented quantifier)', 'rates > 0 for the sign statement'],
    'tv_per_scenario': {'quick': 1000, 'thorough': 1000},
}


def _reaction_pool_single(n):
    return [(r, p) for r in range(n) for p in range(n) if r != p]


def _reaction_pool_two(n1, n2):
    out = []
    for r1 in range(n1):
        for p1 in range(n1):
            for r2 in range(n2):
                for p2 in range(n2):
                    if (r1, r2) != (p1, p2):
                        out.append((r1, p1, r2, p2))
    return out


def _slim_grid(tier):
    out = []
    spaces = [[2, 2], [2, 3], [3, 2], [2, 2, 2], [2, 3, 2], [2, 3, 4], [3, 2, 2], [4, 2, 3]]
    if tier != 'quick':
        spaces += [[2, 2, 2, 2], [2, 3, 2, 3], [3, 3, 3]]
    cnt = 0
    for sp in spaces:
        for cyclic in (False, True):
            for variant in range(3 if tier == 'quick' else 6):
                cnt += 1
                single, two = [], []
                for i, n in enumerate(sp):
                    pool = _reaction_pool_single(n)
                    k = (variant + i) % 3          # 0, 1 or 2 reactions
                    single.append([list(pool[(7 * cnt + 3 * j + i) % len(pool)]) for j in range(k)])
                nb = len(sp) if cyclic else len(sp) - 1
                for i in range(nb):
                    n1, n2 = sp[i], sp[(i + 1) % len(sp)]
                    pool = _reaction_pool_two(n1, n2)
                    k = (variant + i + 1) % 3
                    two.append([list(pool[(11 * cnt + 5 * j + 2 * i) % len(pool)]) for j in range(k)])
                if int(np.prod(sp)) > 24 and variant > 0 and tier == 'quick':
                    continue
                out.append({'space': sp, 'cyclic': cyclic, 'single': single, 'two': two})
    # the same elementary transition listed more than once (independent mechanisms with their own rates): the terms must add up
    for cyclic in (False, True):
        out.append({'space': [2, 3], 'cyclic': cyclic, 'single': [[[0, 1], [0, 1]], [[1, 2], [2, 0], [1, 2]]],
                    'two': [[[0, 1, 1, 0], [0, 1, 1, 0]]] + ([[[2, 1, 1, 0]]] if cyclic else [])})
        out.append({'space': [3, 2, 2], 'cyclic': cyclic, 'single': [[[2, 0], [0, 2], [2, 0]], [], [[1, 0], [1, 0]]],
                    'two': [[[1, 2, 0, 1]], [[0, 1, 0, 1], [1, 0, 1, 0], [0, 1, 0, 1]]] + ([[[1, 1, 2, 0], [1, 1, 2, 0]]] if cyclic else [])})
    # a null reaction (reactant == product) contributes nothing
    out.append({'space': [2, 2], 'cyclic': False, 'single': [[[0, 1], [0, 0]], [[1, 1]]], 'two': [[[0, 0, 1, 1], [1, 0, 0, 1]]]})
    return out


def _generator(ctx, space, single, two, rates_s, rates_t):
    """master-equation generator by state enumeration: G[y, x] += rate, G[x, x] -= rate for every reaction firing in state x"""
    d = len(space)
    N = int(np.prod(space))
    G = ctx.zeros((N, N), cplx=False)

    def idx(x):
        k = 0
        for a, n in zip(x, space):
            k = k * n + a
        return k
    for x in itertools.product(*[range(n) for n in space]):
        for i in range(d):
            for j, (r, p) in enumerate(single[i]):
                if x[i] == r:
                    y = list(x)
                    y[i] = p
                    rate = rates_s[i][j]
                    D._set(G, (idx(y), idx(x)), D._get(G, (idx(y), idx(x))) + rate)
                    D._set(G, (idx(x), idx(x)), D._get(G, (idx(x), idx(x))) - rate)
        for i in range(len(two)):
            a, b = i, (i + 1) % d
            for j, (r1, p1, r2, p2) in enumerate(two[i]):
                if x[a] == r1 and x[b] == r2:
                    y = list(x)
                    y[a], y[b] = p1, p2
                    rate = rates_t[i][j]
                    D._set(G, (idx(y), idx(x)), D._get(G, (idx(y), idx(x))) + rate)
                    D._set(G, (idx(x), idx(x)), D._get(G, (idx(x), idx(x))) - rate)
    return G


@scenario('C12', 'slim', _slim_grid)
def slim(ctx, space, cyclic, single, two):
    """slim_mme == state-enumeration generator for all positive rates; column sums; sign pattern"""
    slimm = ctx.R.slim
    d = len(space)
    rs = [[ctx.scalar('ks%d_%d' % (i, j), lo=(0,)) for j in range(len(single[i]))] for i in range(d)]
    rt = [[ctx.scalar('kt%d_%d' % (i, j), lo=(0,)) for j in range(len(two[i]))] for i in range(len(two))]
    G = _generator(ctx, space, single, two, rs, rt)
    N = G.shape[0]
    box = {}

    def run():
        scr = [[[r, p, rs[i][j]] for j, (r, p) in enumerate(single[i])] for i in range(d)]
        tcr = [[[r1, p1, r2, p2, rt[i][j]] for j, (r1, p1, r2, p2) in enumerate(two[i])] for i in range(len(two))]
        op = slimm.slim_mme(list(space), scr, tcr, threshold=0)
        box['op'] = op
        return D.as_matrix(op.full(), d)
    ctx.chain('slim_mme == master-equation generator (state enumeration)', run, lambda: G)
    op = box['op']
    meta_ok(ctx, 'slim_mme', op)
    ctx.check('slim_mme: dims', op.row_dims == list(space) and op.col_dims == list(space))
    # corollaries, on the oracle terms (equal to the operator by the obligation above)
    zero = ctx.zeros((N,), cplx=False)
    sums = ctx.zeros((N,), cplx=False)
    for j in range(N):
        D._set(sums, (j,), D.sum_((D._get(G, (i, j)) for i in range(N)), ctx))
    ctx.eq('column sums of the generator vanish', sums, zero)
    if ctx.sym:
        import z3
        from symtt.scalar import Sc, zterm
        conds = []
        for i in range(N):
            for j in range(N):
                if i != j:
                    e = Sc.of(D._get(G, (i, j)))
                    if not e.is_concrete:
                        conds.append(zterm(e.re) >= 0)
                    elif e.re < 0:
                        conds.append(z3.BoolVal(False))
        if conds:
            ctx.check('off-diagonal entries are non-negative for positive rates', z3.And(*conds), form='IV')
    else:
        off = np.asarray(G, dtype=float) - np.diag(np.diag(np.asarray(G, dtype=float)))
        ctx.check('off-diagonal entries are non-negative for positive rates', bool((off >= -1e-14).all()))


def _hom_grid(tier):
    out = []
    for n, d in ((2, 2), (2, 3), (3, 2), (3, 3) if tier != 'quick' else (2, 4)):
        for cyclic in (False, True):
            for variant in range(2):
                ps = _reaction_pool_single(n)
                pt = _reaction_pool_two(n, n)
                single = [list(ps[(variant + j) % len(ps)]) for j in range(1 + variant)]
                two = [list(pt[(3 * variant + 5 * j + 1) % len(pt)]) for j in range(2 - variant)]
                out.append({'n': n, 'd': d, 'cyclic': cyclic, 'single': single, 'two': two})
    for cyclic in (False, True):
        out.append({'n': 3, 'd': 3, 'cyclic': cyclic, 'single': [[0, 1], [1, 2], [0, 1]], 'two': [[1, 0, 0, 1], [1, 0, 0, 1]]})
    return out


@scenario('C12', 'slim_hom', _hom_grid)
def slim_hom(ctx, n, d, cyclic, single, two):
    """slim_mme_hom(cyclic) == slim_mme with the same reactions repeated on every cell / bond == state-enumeration generator"""
    slimm = ctx.R.slim
    space = [n] * d
    rs = [ctx.scalar('ks%d' % j, lo=(0,)) for j in range(len(single))]
    rt = [ctx.scalar('kt%d' % j, lo=(0,)) for j in range(len(two))]
    nb = d if cyclic else d - 1
    G = _generator(ctx, space, [single] * d, [two] * nb, [rs] * d, [rt] * nb)
    box = {}

    def run():
        scr = [[r, p, rs[j]] for j, (r, p) in enumerate(single)]
        tcr = [[r1, p1, r2, p2, rt[j]] for j, (r1, p1, r2, p2) in enumerate(two)]
        op = slimm.slim_mme_hom(list(space), scr, tcr, cyclic=cyclic, threshold=0)
        box['op'] = op
        return D.as_matrix(op.full(), d)
    ctx.chain('slim_mme_hom == master-equation generator', run, lambda: G)
    meta_ok(ctx, 'slim_mme_hom', box['op'])


# ------------------------------------------------------------------------------ Ulam
def _ulam_grid(tier):
    out = []
    pairs2 = [(x1, x2, y1, y2) for x1 in (1, 2) for x2 in (1, 2) for y1 in (1, 2) for y2 in (1, 2)]
    for t in pairs2:
        out.append({'dim': 2, 'states': [2, 2], 'table': [list(t)]})
    for a, b in itertools.product(range(16), repeat=2):
        if (a * 16 + b) % (5 if tier == 'quick' else 1) == 0:
            out.append({'dim': 2, 'states': [2, 2], 'table': [list(pairs2[a]), list(pairs2[b])]})
    for k in range(0, 4096, 97 if tier == 'quick' else 11):
        out.append({'dim': 2, 'states': [2, 2], 'table': [list(pairs2[k % 16]), list(pairs2[(k // 16) % 16]), list(pairs2[(k // 256) % 16])]})
    out.append({'dim': 2, 'states': [3, 2], 'table': [[3, 1, 1, 2], [3, 1, 1, 2], [2, 2, 3, 1], [1, 1, 1, 1]]})
    pairs3 = [tuple(p) for p in itertools.product((1, 2), repeat=6)]
    for k in range(0, 64 * 64, 131 if tier == 'quick' else 17):
        out.append({'dim': 3, 'states': [2, 2, 2], 'table': [list(pairs3[k % 64]), list(pairs3[(k // 64) % 64])]})
    out.append({'dim': 3, 'states': [2, 3, 2], 'table': [[1, 3, 2, 2, 1, 1], [1, 3, 2, 2, 1, 1], [2, 2, 1, 1, 3, 2]]})
    # non-square / non-cubic grids in every order of the sizes (a size used for the wrong axis shows only there); tables from a fixed LCG,
    # always including the corner boxes (largest index on every axis as source and as target)
    def lcg_table(states, nrows, seed):
        x = seed
        rows = [[n for n in states] + [1] * len(states), [1] * len(states) + [n for n in states], [n for n in states] * 2]
        while len(rows) < nrows:
            r = []
            for n in list(states) * 2:
                x = (1103515245 * x + 12345) % (2 ** 31)
                r.append(1 + (x >> 8) % n)
            rows.append(r)
        return rows
    sizes3 = [(2, 3, 4), (1, 2, 3)] if tier == 'quick' else [(2, 3, 4), (1, 2, 3), (2, 2, 3), (3, 3, 2)]
    for sz in sizes3:
        for perm in sorted(set(itertools.permutations(sz))):
            out.append({'dim': 3, 'states': list(perm), 'table': lcg_table(perm, 7, sum(perm) * 7 + perm[0])})
    for sz in [(2, 3), (3, 2), (1, 3), (4, 2), (2, 4)]:
        out.append({'dim': 2, 'states': list(sz), 'table': lcg_table(sz, 6, sz[0] * 5 + sz[1])})
    return out


@scenario('C12', 'ulam', _ulam_grid)
def ulam(ctx, dim, states, table):
    """ulam_2d / ulam_3d: entry (y, x) == (number of rows x -> y) / simulations, symbolic number of simulations"""
    ul = ctx.R.ulam
    sims = ctx.scalar('simulations', lo=(0,))
    tr = np.array(table, dtype=int).T            # columns are transitions
    op = ul.ulam_2d(tr, list(states), sims) if dim == 2 else ul.ulam_3d(tr, list(states), sims)
    meta_ok(ctx, 'ulam', op)
    d = dim
    N = int(np.prod(states))
    exp = ctx.zeros((N, N), cplx=False)

    def idx(x):
        k = 0
        for a, n in zip(x, states):
            k = k * n + (a - 1)
        return k
    inv = ctx.const_frac(1) / sims
    for row in table:
        x, y = row[:d], row[d:]
        D._set(exp, (idx(y), idx(x)), D._get(exp, (idx(y), idx(x))) + inv)
    ctx.eq('ulam_%dd: matricised operator == transition counts / simulations' % dim, D.as_matrix(op.full(), d), exp)
