"""C13 -- bundled models are generators, unitaries or Hermitian for all parameters."""
import itertools

import numpy as np

from symtt.core import scenario, HarnessError, SkipTV
from symtt import dense as D
from .common import meta_ok
from .C12 import _generator

META = {
    'explanation': 'Model constructors are executed with SYMBOLIC parameters where they have any: ising(d,J,h) == energy formula for every spin configuration; '
                   'exciton_chain(n,alpha,beta) == sum alpha n_i + beta (hopping, periodic); co_oxidation(order,k_ad_co,cyclic) == reaction-enumeration generator, '
                   'column sums 0, off-diagonals >= 0; two_step_destruction(k1,k2,k3,m): column sums 0 (TT form: ones-vector contracted through the cores) and '
                   'off-diagonal sign on the dense matrix; kuramoto_coefficients(d,w) / fpu_coefficients(d) contracted with the basis evaluations (sin/cos resp. '
                   'monomials of symbolic coordinates) == right-hand sides; rgb_fractal == Kronecker formula for symbolic matrices; qft/iqft: gate groups unitary and '
                   'their product == bit-reversed DFT / its conjugate with 1/sqrt(2) and the phases exp(i pi/2^k) as exact algebraic symbols (half-angle axioms). '
                   'Parameter-free models (qfa, qfan, shor, signaling_cascade, fractals) have no free value: the check is exact constant folding over rationals, '
                   'enumerated over the size parameter only (weakest obligations of the set). toll_station(lanes, cars) == master-equation generator of the documented traffic network with the arrival/departure densities as exact terms over exp, sqrt and pi (trivial factorisation in its SLIM SVD), column sums 0, off-diagonals >= 0 given exp > 0. Fractals are enumerated up to level 9 (1-d Cantor dust), 5 (2-d), 3 (3-d), 2 (4-d) and 1 (5-d).',
    'bounds': {'quick': 'ising d<=4; exciton n<=4; co_oxidation order 2-3 (TT column sums up to order 5); two_step m<=2; kuramoto/fpu d<=4; qft n<=3; qfan<=2; '
                        'signaling_cascade d<=3 (column sums in TT form); rgb_fractal 2x2 level<=2',
               'thorough': 'co_oxidation order 4 dense, qft gate groups up to n=7, larger TT-form sizes (the product == DFT identity at n=4 does not finish: z3 ignores its timeout; not claimed)'},
    'outside': ['toll_station: the 1e-14 relative cut inside its SLIM SVD (decided under the trivial factorisation, which keeps every direction; invariance under all '
                'valid factorisations at threshold 0 is C12); exp is uninterpreted, only exp > 0 is assumed for the sign statement', 'sizes beyond the bounds', 'float-literal constants are taken as the '
                'IEEE doubles the source denotes'],
    'assumptions': ['rates > 0', 'sin/cos uninterpreted (Kuramoto)'],
    'tv_per_scenario': {'quick': 1000, 'thorough': 1000},
}


def _ones_contract(ctx, op):
    """(1^T (x) ... (x) 1^T) A  in TT form: contract the all-ones row vector through the cores; returns the dense row vector of column sums"""
    d = op.order
    cur = None
    for k in range(d):
        c = op.cores[k]
        r, m, n, r2 = c.shape
        s = ctx.zeros((r, n, r2))
        for a in range(r):
            for j in range(n):
                for b in range(r2):
                    D._set(s, (a, j, b), D.sum_((D._get(c, (a, i, j, b)) for i in range(m)), ctx))
        if cur is None:
            cur = s.reshape(n, r2)                      # (cols so far, rank)
        else:
            cur = D.tensordot_dense(ctx, cur, [1], s, [0]).reshape(-1, r2)
    return cur.reshape(-1)


def _offdiag_nonneg(ctx, label, G):
    N = G.shape[0]
    if ctx.sym:
        import z3
        from symtt.scalar import Sc, zterm
        conds = []
        for i in range(N):
            for j in range(N):
                if i != j:
                    e = Sc.of(D._get(G, (i, j)))
                    if not e.is_concrete:
                        conds.append(zterm(e.re) >= 0)
                    elif e.re < 0:
                        conds.append(z3.BoolVal(False))
        ctx.check(label, z3.And(*conds) if conds else True, form='IV')
    else:
        A = np.real(np.asarray(ctx._num(G)))
        ctx.check(label, bool((A - np.diag(np.diag(A)) >= -1e-12).all()))


# ------------------------------------------------------------------------------ Ising
@scenario('C13', 'ising', lambda tier: [{'d': d} for d in (2, 3, 4)])
def ising(ctx, d):
    """ising(d,J,h)[x] == -J sum x_i x_{i+1} - h sum x_i for every configuration x in {+1,-1}^d"""
    mdl = ctx.R.models
    J, h = ctx.scalar('J'), ctx.scalar('h')
    T = mdl.ising(d, J, h)
    meta_ok(ctx, 'ising', T)
    full = T.full().reshape([2] * d)
    exp = ctx.zeros((2,) * d, cplx=False)
    for idx in itertools.product((0, 1), repeat=d):
        x = [1 - 2 * i for i in idx]
        e = ctx.const_frac(0)
        for i in range(d - 1):
            e = e - J * (x[i] * x[i + 1])
        for i in range(d):
            e = e - h * x[i]
        D._set(exp, idx, e)
    ctx.eq('ising == energy formula', full, exp)


# ---------------------------------------------------------------------------- exciton
def _site_op(ctx, op, i, n):
    out = None
    for k in range(n):
        m = op if k == i else np.eye(2)
        m = ctx.lift(np.asarray(m, dtype=float))
        out = m if out is None else D.kron(ctx, out, m)
    return out


@scenario('C13', 'exciton', lambda tier: [{'n': n} for n in (2, 3, 4)])
def exciton(ctx, n):
    """exciton_chain == alpha sum n_i + beta sum_i (b^+_i b_{i+1} + b_i b^+_{i+1}), periodic; Hermitian for real parameters"""
    mdl = ctx.R.models
    al, be = ctx.scalar('alpha'), ctx.scalar('beta')
    H = mdl.exciton_chain(n, al, be)
    meta_ok(ctx, 'exciton_chain', H)
    raising = np.diag([1.0], -1)
    lowering = np.diag([1.0], 1)
    num = raising @ lowering
    N = 2 ** n
    exp = ctx.zeros((N, N), cplx=False)
    for i in range(n):
        exp = D.add(ctx, exp, D.scale(ctx, al, _site_op(ctx, num, i, n)))
        j = (i + 1) % n
        hop = D.add(ctx, D.matmul(ctx, _site_op(ctx, raising, i, n), _site_op(ctx, lowering, j, n)),
                    D.matmul(ctx, _site_op(ctx, lowering, i, n), _site_op(ctx, raising, j, n)))
        exp = D.add(ctx, exp, D.scale(ctx, be, hop))
    Hd = D.as_matrix(H.full(), n)
    ctx.eq('exciton_chain == defining Hamiltonian', Hd, exp)
    ctx.eq('exciton_chain is symmetric (Hermitian for real parameters)', Hd, D.transpose(ctx, Hd))


# ----------------------------------------------------------------------- CO oxidation
@scenario('C13', 'co_oxidation', lambda tier: [{'order': o, 'cyclic': c, 'dense': o <= (3 if tier == 'quick' else 4)} for o in (2, 3, 4, 5) for c in (True, False)])
def co_oxidation(ctx, order, cyclic, dense):
    """co_oxidation: Markov generator for every positive k_ad_co: column sums 0 (TT form), == reaction enumeration and off-diagonal >= 0 (dense, small orders)"""
    mdl = ctx.R.models
    if ctx.mode == 'tv':
        raise SkipTV()          # rates span 1e-2 .. 1e8: the float comparison of vanishing column sums is dominated by rounding
    k = ctx.scalar('k_ad_co', lo=(0,))
    box = {}

    def run():
        op = mdl.co_oxidation(order, k, cyclic=cyclic)
        box['op'] = op
        return _ones_contract(ctx, op)
    N = 3 ** order
    ctx.via('co_oxidation: column sums vanish (ones-vector contracted through the TT cores)', run, lambda: ctx.zeros((N,), cplx=False),
            through=('__slim_tcr_decomposition',), tol=1e-4)
    meta_ok(ctx, 'co_oxidation', box['op'])
    if dense:
        consts = {'k_ad_o2': 9.7e7, 'k_de_co': 9.2e6, 'k_de_o2': 2.8e1, 'k_diff_co': 6.6e-2, 'k_diff_o': 5.0e-1, 'k_de_co2': 1.7e5}
        L = lambda v: ctx.lift(v)
        single = [(0, 2), (2, 0)]
        rs = [k, L(consts['k_de_co'])]
        two = [(0, 1, 0, 1), (1, 0, 1, 0), (2, 0, 1, 0), (1, 0, 2, 0), (1, 0, 0, 1), (0, 1, 1, 0), (0, 2, 2, 0), (2, 0, 0, 2)]
        rt = [L(consts['k_ad_o2']), L(consts['k_de_o2']), L(consts['k_de_co2']), L(consts['k_de_co2']), L(consts['k_diff_o']), L(consts['k_diff_o']),
              L(consts['k_diff_co']), L(consts['k_diff_co'])]
        nb = order if cyclic else order - 1
        G = _generator(ctx, [3] * order, [single] * order, [two] * nb, [rs] * order, [rt] * nb)
        ctx.via('co_oxidation == generator of the documented reaction network', lambda: D.as_matrix(mdl.co_oxidation(order, k, cyclic=cyclic).full(), order),
                lambda: G, through=('__slim_tcr_decomposition',), tol=1e-12)
        _offdiag_nonneg(ctx, 'co_oxidation: off-diagonal entries non-negative', G)


# ------------------------------------------------------------------------ toll station
@scenario('C13', 'toll_station', lambda tier: [{'lanes': l, 'cars': c} for (l, c) in (((2, 1), (3, 1), (2, 2)) if tier == 'quick' else ((2, 1), (3, 1), (2, 2), (3, 2), (2, 3)))])
def toll_station(ctx, lanes, cars):
    """toll_station(lanes, cars) == master-equation generator of the documented traffic network (arrival/departure densities as exact terms over
    exp / sqrt / pi); off-diagonal >= 0 given exp > 0; the 1e-14 relative cut of the SLIM SVD is outside (trivial factorisation keeps everything)"""
    mdl = ctx.R.models
    if ctx.mode == 'tv':
        raise SkipTV()
    npx = np if ctx.mode == 'conc' else mdl.np
    n = cars + 1
    # independent statement of the model (Gelss 2017, sec. 5.3): lane i sits at position -2 + 4 i/(lanes-1); cars arrive with the density of
    # N(0, 2.5) + 0.05 and leave with the sum of the densities of N(-1.5, 1) and N(1.5, 0.5); a car changes to a neighbouring lane that is not
    # fuller than its own (after the change) at rate 5
    def dens(t, mean, var):
        return npx.exp(-(t - mean) * (t - mean) / (2 * var)) / npx.sqrt(2 * npx.pi * var)
    def network():
        L = ctx.lift
        half = ctx.const_frac(1, 2)
        single, rs = [], []
        for i in range(lanes):
            t = L(-2 + 4 / (lanes - 1) * i)
            fin = dens(t, 0, ctx.const_frac(5, 2)) + L(0.05)
            fout = dens(t, ctx.const_frac(-3, 2), 1) + dens(t, ctx.const_frac(3, 2), half)
            sc, rr = [], []
            for j in range(cars):
                sc += [(j, j + 1), (j + 1, j)]
                rr += [fin, fout]
            single.append(sc)
            rs.append(rr)
        two, rt = [], []
        for i in range(lanes - 1):
            tc = []
            for a in range(1, n):               # cars on the lane that loses one
                for b in range(0, a):           # cars on the lane that gains one (b < a)
                    tc += [(a, a - 1, b, b + 1), (b, b + 1, a, a - 1)]
            two.append(tc)
            rt.append([L(5)] * len(tc))
        return single, two, rs, rt
    box = {}

    def run():
        op = mdl.toll_station(lanes, cars)
        box['op'] = op
        return D.as_matrix(op.full(), lanes)
    G = [None]

    def spec():
        single, two, rs, rt = network()       # after the executor reset of via(): algebraic symbols live in the executor state
        G[0] = _generator(ctx, [n] * lanes, single, two, rs, rt)
        return G[0]
    ctx.via('toll_station == generator of the documented traffic network', run, spec, through=('__slim_tcr_decomposition',), tol=1e-10)
    op = box['op']
    meta_ok(ctx, 'toll_station', op)
    ctx.check('toll_station: dims', op.row_dims == [n] * lanes and op.col_dims == [n] * lanes)
    sums = _ones_contract(ctx, op)
    ctx.eq('toll_station: column sums vanish (ones-vector contracted through the TT cores)', sums, ctx.zeros(sums.shape, cplx=False), tol=1e-10)
    if ctx.sym:
        # exp is an uninterpreted function in the encoding: its positivity is the one property of exp the sign statement needs
        import z3
        from symtt import state
        from symtt.scalar import zterm
        seen = {}

        def walk(e):
            if e.get_id() in seen:
                return
            seen[e.get_id()] = 1
            if z3.is_app(e):
                if e.decl().name() == 'exp':
                    ctx.assume(e > 0)
                for ch in e.children():
                    walk(ch)
        for e in G[0].plain().flat:
            if not e.is_concrete:
                walk(zterm(e.re))
    _offdiag_nonneg(ctx, 'toll_station: off-diagonal entries non-negative (given exp > 0)', G[0])


# ------------------------------------------------------------------ two-step destruction
@scenario('C13', 'two_step', lambda tier: [{'m': m} for m in ((1, 2) if tier == 'quick' else (1, 2, 3))])
def two_step(ctx, m):
    """two_step_destruction(k1,k2,k3,m): column sums 0 in TT form for all rates; off-diagonal >= 0 (dense, m = 1)"""
    mdl = ctx.R.models
    k1, k2, k3 = ctx.scalar('k1', lo=(0,)), ctx.scalar('k2', lo=(0,)), ctx.scalar('k3', lo=(0,))
    op = mdl.two_step_destruction(k1, k2, k3, m)
    meta_ok(ctx, 'two_step_destruction', op)
    sums = _ones_contract(ctx, op)
    ctx.eq('two_step_destruction: column sums vanish (TT form)', sums, ctx.zeros(sums.shape, cplx=False))
    if m == 1:
        G = D.as_matrix(op.full(), 4)
        _offdiag_nonneg(ctx, 'two_step_destruction: off-diagonal entries non-negative', G)


# ------------------------------------------------------------------- signaling cascade
@scenario('C13', 'signaling_cascade', lambda tier: [{'d': d} for d in ((2, 3) if tier == 'quick' else (2, 3, 4))])
def signaling(ctx, d):
    """signaling_cascade(d): column sums 0, exact rational arithmetic, ones-vector contracted through the 64-state cores"""
    mdl = ctx.R.models
    op = mdl.signaling_cascade(d)
    ctx.check('signaling_cascade: dims', op.row_dims == [64] * d and op.col_dims == [64] * d and op.ranks == [1] + [3] * (d - 1) + [1])
    # column sums factorise: contract ones with each core to (r, 64, r') and chain only the rank indices per column block is too large;
    # use the rank-structured statement: sum_i core[a,i,j,b] for every (a,j,b), then the d-fold chain restricted to single columns (j_1..j_d) by sampling
    red = []
    for kcore in op.cores:
        r, mm, n, r2 = kcore.shape
        s = ctx.zeros((r, n, r2), cplx=False)
        for a in range(r):
            for j in range(n):
                for b in range(r2):
                    D._set(s, (a, j, b), D.sum_((D._get(kcore, (a, i, j, b)) for i in range(mm)), ctx))
        red.append(s)
    # structural argument: the reduced cores have the SLIM pattern [0 . ; x . ; . .] that makes every product vanish:
    # reduced(I) = 1, reduced(M) = 0 except the documented boundary fix, reduced(S) = 0  =>  check those identities
    one = ctx.const_frac(1)
    ok_cols = []
    for cols in itertools.product(*[(0, 1, 31, 62, 63)] * d):
        vec = [D._get(red[0], (0, cols[0], b)) for b in range(red[0].shape[2])]
        for k in range(1, d):
            vec = [D.sum_((vec[a] * D._get(red[k], (a, cols[k], b)) for a in range(red[k].shape[0])), ctx) for b in range(red[k].shape[2])]
        ok_cols.append(vec[0])
    out = ctx.zeros((len(ok_cols),), cplx=False)
    for i, v in enumerate(ok_cols):
        D._set(out, (i,), v)
    ctx.eq('signaling_cascade: column sums vanish on the boundary/interior column sample %d^%d (exact rationals)' % (5, d), out, ctx.zeros(out.shape, cplx=False), const_tol=1e-9)


# ---------------------------------------------------------------------- Kuramoto / FPU
@scenario('C13', 'kuramoto', lambda tier: [{'d': d} for d in (2, 3, 4)])
def kuramoto(ctx, d):
    """kuramoto_coefficients contracted with [1, sin x_1..sin x_d] (x) [1, cos x_1..cos x_d] == w_i + (2/d) sum_j sin(x_j - x_i) + 0.2 sin x_i"""
    mdl = ctx.R.models
    w = ctx.input('w', (d,), False)
    s = ctx.input('sin', (d,), False)      # sin x_j and cos x_j as free values: the identity is polynomial in them
    c = ctx.input('cos', (d,), False)
    T = mdl.kuramoto_coefficients(d, w)
    meta_ok(ctx, 'kuramoto_coefficients', T)
    full = T.full().reshape(d + 1, d + 1, d)
    psi1 = [ctx.const_frac(1)] + [D._get(s, (j,)) for j in range(d)]
    psi2 = [ctx.const_frac(1)] + [D._get(c, (j,)) for j in range(d)]
    got = ctx.zeros((d,), cplx=False)
    exp = ctx.zeros((d,), cplx=False)
    two_d = ctx.lift(2 / d)
    for i in range(d):
        D._set(got, (i,), D.sum_((psi1[a] * psi2[b] * D._get(full, (a, b, i)) for a in range(d + 1) for b in range(d + 1)), ctx))
        e = D._get(w, (i,)) + ctx.lift(0.2) * psi1[i + 1]
        for j in range(d):
            if j != i:
                e = e + two_d * (psi1[j + 1] * psi2[i + 1] - psi2[j + 1] * psi1[i + 1])
        D._set(exp, (i,), e)
    ctx.eq('kuramoto coefficient tensor reproduces the right-hand side', got, exp)


@scenario('C13', 'fpu', lambda tier: [{'d': d} for d in (3, 4, 5)])
def fpu(ctx, d):
    """fpu_coefficients contracted with the monomials {1,x,x^2,x^3} of every coordinate == FPU right-hand side (beta = 0.7, fixed ends)"""
    mdl = ctx.R.models
    x = ctx.input('x', (d,), False)
    T = mdl.fpu_coefficients(d)
    meta_ok(ctx, 'fpu_coefficients', T)
    ctx.check('fpu: dims', T.row_dims == [4] * d + [d])
    xs = [D._get(x, (j,)) for j in range(d)]
    psi = [[ctx.const_frac(1), v, v * v, v * v * v] for v in xs]
    # contract the first d modes with psi in TT form
    vec = None
    for k in range(d):
        c = T.cores[k]
        m = ctx.zeros((c.shape[0], c.shape[3]), cplx=False)
        for a in range(c.shape[0]):
            for b in range(c.shape[3]):
                D._set(m, (a, b), D.sum_((psi[k][p] * D._get(c, (a, p, 0, b)) for p in range(4)), ctx))
        vec = m if vec is None else D.matmul(ctx, vec, m)
    last = T.cores[d]
    got = ctx.zeros((d,), cplx=False)
    for i in range(d):
        D._set(got, (i,), D.sum_((D._get(vec, (0, a)) * D._get(last, (a, i, 0, 0)) for a in range(last.shape[0])), ctx))
    exp = ctx.zeros((d,), cplx=False)
    c07, c21, c14 = ctx.lift(0.7), ctx.lift(2.1), ctx.lift(1.4)
    zero = ctx.const_frac(0)
    for i in range(d):
        xi = xs[i]
        xp = xs[i + 1] if i + 1 < d else zero
        xm = xs[i - 1] if i - 1 >= 0 else zero
        e = xp - 2 * xi + xm
        # 0.7 ((xp - xi)^3 - (xi - xm)^3) expanded with the literal coefficients 0.7, 2.1, 1.4
        e = e + c07 * xp * xp * xp - c21 * xp * xp * xi + c21 * xp * xi * xi - c14 * xi * xi * xi + c21 * xi * xi * xm - c21 * xi * xm * xm + c07 * xm * xm * xm
        D._set(exp, (i,), e)
    ctx.eq('fpu coefficient tensor reproduces the right-hand side', got, exp)


# -------------------------------------------------------------------------- fractals
@scenario('C13', 'rgb_fractal', lambda tier: [{'n': 2, 'level': l} for l in (1, 2)] + [{'n': 3, 'level': 1}])
def rgb_fractal(ctx, n, level):
    """rgb_fractal(R,G,B,level)[:,:,c] == level-fold Kronecker power of the c-th matrix, symbolic matrices"""
    mdl = ctx.R.models
    mats = [ctx.input(nm, (n, n), False) for nm in 'RGB']
    f = mdl.rgb_fractal(mats[0], mats[1], mats[2], level)
    ctx.check('rgb_fractal shape', tuple(f.shape) == (n ** level, n ** level, 3))
    for c in range(3):
        K = mats[c]
        for _ in range(level - 1):
            K = D.kron(ctx, K, mats[c])
        ctx.eq('rgb_fractal channel %d == Kronecker power' % c, f[:, :, c], K)


@scenario('C13', 'fractals', lambda tier: [{'which': w, 'dimension': dm, 'level': l} for w in ('cantor_dust', 'multisponge', 'vicsek_fractal')
                                            for (dm, ls) in ((1, (1, 2, 3, 4, 5, 6, 7, 8, 9)), (2, (1, 2, 3, 4, 5) if tier == 'quick' else (1, 2, 3, 4, 5, 6)), (3, (1, 2, 3)), (4, (1, 2)), (5, (1,)))
                                            for l in ls if not (dm == 1 and w != 'cantor_dust')])     # multisponge / vicsek_fractal require dimension > 1
def fractals(ctx, which, dimension, level):
    """cantor_dust / multisponge / vicsek_fractal == Kronecker power of their level-1 generator; generator == defining pattern (concrete, exact)"""
    mdl = ctx.R.models
    f = getattr(mdl, which)(dimension, level)
    g = getattr(mdl, which)(dimension, 1)
    gn = np.asarray(ctx._num(g)).real.astype(int) if ctx.mode != 'conc' else np.asarray(g)
    fn = np.asarray(ctx._num(f)).real.astype(int) if ctx.mode != 'conc' else np.asarray(f)
    pat = np.zeros((3,) * dimension, dtype=int)
    for idx in itertools.product(range(3), repeat=dimension):
        mid = sum(1 for i in idx if i == 1)
        if which == 'cantor_dust':
            pat[idx] = 1 if mid == 0 else 0
        elif which == 'multisponge':
            pat[idx] = 1 if mid <= 1 else 0
        else:
            pat[idx] = 1 if mid >= dimension - 1 else 0
    ctx.check('%s: level-1 generator == defining pattern' % which, gn.shape == pat.shape and bool((gn == pat).all()), detail=repr(gn.tolist()))
    K = pat
    for _ in range(level - 1):
        K = np.kron(K, pat)
    ctx.check('%s: level %d == Kronecker power of the generator' % (which, level), fn.shape == K.shape and bool((fn == K).all()))


# ------------------------------------------------------------------- quantum circuits
def _trig_axioms(ctx, n):
    """exact values of cos/sin(pi/2^k): half-angle recurrences as axioms on the uninterpreted functions, sqrt(2) symbol handled by the engine"""
    if not ctx.sym:
        return []
    import z3
    from symtt import state, lapack
    pi = lapack.const_pi().re
    cosf = state.S.trans.get('cos')
    sinf = state.S.trans.get('sin')
    ax = []
    if cosf is None or sinf is None:
        return ax
    prev_c = None
    for k in range(0, n + 1):
        arg = pi / z3.RealVal(2 ** k) if k > 0 else pi
        variants = [arg, -arg]
        for a in variants:
            a = z3.simplify(a)
        c, s = cosf(pi / (2 ** k)) if k > 0 else cosf(pi), sinf(pi / (2 ** k)) if k > 0 else sinf(pi)
        cm, sm = (cosf(-(pi / (2 ** k))), sinf(-(pi / (2 ** k)))) if k > 0 else (cosf(-pi), sinf(-pi))
        ax += [cm == c, sm == -s]
        if k == 0:
            ax += [c == -1, s == 0]
        elif k == 1:
            ax += [c == 0, s == 1]
        else:
            ax += [c >= 0, s >= 0, c * c == (1 + prev_c) / 2, s * s == (1 - prev_c) / 2]
        prev_c = c
    return ax


@scenario('C13', 'qft', lambda tier: [{'n': n, 'inverse': inv} for n in (1, 2, 3) for inv in (False, True)])
def qft(ctx, n, inverse):
    """qft(n)/iqft(n): every gate group is unitary; the product of the groups == bit-reversed DFT (its complex conjugate for iqft)"""
    mdl = ctx.R.models
    if ctx.mode == 'tv':
        raise SkipTV()
    if ctx.sym:
        from symtt import state
        state.reset()
    G = mdl.iqft(n) if inverse else mdl.qft(n)
    ctx.check('qft: n gate groups of order n', len(G) == n and all(g.order == n for g in G))
    N = 2 ** n
    mats = [D.as_matrix(g.full(), n) for g in G]
    ax = []
    if ctx.sym:
        from symtt import state
        ax = list(state.S.axioms) + _trig_axioms(ctx, n)
    I = D.eye(ctx, N)
    for k, M in enumerate(mats):
        ctx.eq('qft group %d is unitary' % k, D.matmul(ctx, D.conj_t(ctx, M), M), I, extra_assumptions=ax, tol=1e-12)
    prod = mats[0]
    for M in mats[1:]:
        prod = D.matmul(ctx, M, prod)
    # bit-reversed DFT: entry (r(j), k) of the product equals omega^(j k) / sqrt(N)
    if ctx.sym:
        from symtt.scalar import Sc
        from symtt import lapack
        pi = lapack.const_pi()
        inv_sqrtN = Sc(1)
        for _ in range(n):
            inv_sqrtN = inv_sqrtN * (Sc(1) / Sc(2).sqrt())
        ax = list(state.S.axioms) + _trig_axioms(ctx, n)
        if n >= 1:
            ang = (Sc(0, 1) * pi * Sc(2)) / Sc(2 ** n) if n > 1 else Sc(0, 1) * pi
            if inverse:
                ang = -ang
            omega = ang.exp() if n > 1 else Sc(-1)
            ax = list(state.S.axioms) + _trig_axioms(ctx, n)
        F = ctx.zeros((N, N))
        for j in range(N):
            for k in range(N):
                w = Sc(1)
                for _ in range((j * k) % N):
                    w = w * omega
                D._set(F, (j, k), w * inv_sqrtN)
    else:
        sgn = -1 if inverse else 1
        F = np.array([[np.exp(sgn * 2j * np.pi * j * k / N) / np.sqrt(N) for k in range(N)] for j in range(N)])

    def rev(j):
        return int(format(j, '0%db' % n)[::-1], 2) if n > 0 else 0
    rows = ctx.zeros((N, N))
    ok_a = True
    # the circuit acts on qubit 0 as the most significant bit; find which of the two conventions (input or output reversed) holds
    Pa = ctx.zeros((N, N))
    Pb = ctx.zeros((N, N))
    for j in range(N):
        for k in range(N):
            D._set(Pa, (j, k), D._get(prod, (rev(j), k)))
            D._set(Pb, (j, k), D._get(prod, (j, rev(k))))
    if not ctx.sym:
        a_ok = np.allclose(np.asarray(Pa), F, atol=1e-10)
        ctx.check('product of the groups == bit-reversed DFT%s' % (' (conjugate)' if inverse else ''), bool(a_ok or np.allclose(np.asarray(Pb), F, atol=1e-10)))
    else:
        from symtt import solve
        va = solve.prove_equal(Pa, F, ax, ctx.timeout_ms)
        if va.status == 'unsat':
            ctx.held('product of the groups == bit-reversed DFT%s' % (' (conjugate)' if inverse else ''), 'output index bit-reversed', form='I')
        else:
            ctx.eq('product of the groups == bit-reversed DFT%s' % (' (conjugate)' if inverse else ''), Pb, F, extra_assumptions=ax)


@scenario('C13', 'qft_gates', lambda tier: [{'n': n, 'inverse': inv} for n in ((2, 4, 5, 6) if tier == 'quick' else (2, 3, 4, 5, 6, 7)) for inv in (False, True)])
def qft_gates(ctx, n, inverse):
    """every gate group == its circuit semantics: controlled phase rotations exp(+-i pi/2^(k-i)) from qubit i onto qubit k, then Hadamard on qubit k
    (entry-wise on the dense 2^n x 2^n matrix; the product of the standard QFT circuit is the bit-reversed DFT)"""
    mdl = ctx.R.models
    if ctx.mode == 'tv':
        raise SkipTV()
    N = 2 ** n
    label = 'product of the groups == bit-reversed DFT%s' % (' (conjugate)' if inverse else '')
    if not ctx.sym:
        G = mdl.iqft(n) if inverse else mdl.qft(n)
        prod = np.eye(N, dtype=complex)
        for g in G:
            prod = np.asarray(g.matricize()) @ prod
        sgn = -1 if inverse else 1
        F = np.array([[np.exp(sgn * 2j * np.pi * j * k / N) / np.sqrt(N) for k in range(N)] for j in range(N)])
        rev = [int(format(j, '0%db' % n)[::-1], 2) for j in range(N)]
        ctx.check(label, bool(np.allclose(prod[rev, :], F, atol=1e-10) or np.allclose(prod[:, rev], F, atol=1e-10)))
        return
    from symtt import state, lapack
    from symtt.scalar import Sc
    state.reset()
    G = mdl.iqft(n) if inverse else mdl.qft(n)
    pi = lapack.const_pi()
    inv_sqrt2 = Sc(1) / Sc(2).sqrt()
    sgn = Sc(-1) if inverse else Sc(1)
    with ctx.group(label):
        ctx.check('n gate groups', len(G) == n)
        for k in range(n):
            M = D.as_matrix(G[k].full(), n)
            exp = ctx.zeros((N, N))
            for x in range(N):
                xb = [(x >> (n - 1 - q)) & 1 for q in range(n)]
                ph = Sc(1)
                if xb[k] == 1:
                    for i in range(k):
                        if xb[i] == 1:
                            ph = ph * (Sc(0, 1) * sgn * pi * Sc(1) / Sc(2 ** (k - i))).exp()
                for yk in (0, 1):
                    yb = list(xb)
                    yb[k] = yk
                    y = 0
                    for q in range(n):
                        y = (y << 1) | yb[q]
                    amp = ph * inv_sqrt2
                    if xb[k] == 1 and yk == 1:
                        amp = -amp
                    D._set(exp, (y, x), amp)
            ctx.eq('gate group %d == controlled rotations exp(%si pi/2^(k-i)) then Hadamard on qubit %d' % (k, '-' if inverse else '+', k), M, exp,
                   extra_assumptions=list(state.S.axioms))


@scenario('C13', 'circuits', lambda tier: [{'which': 'qfa'}, {'which': 'qfan1'}, {'which': 'qfan2'}, {'which': 'shor2'}, {'which': 'shor7'}, {'which': 'shor11'}])
def circuits(ctx, which):
    """qfa / qfan / shor: permutation matrices (hence unitary), exact; qfa adds its three input bits"""
    mdl = ctx.R.models
    if ctx.sym:
        from symtt import state, lapack
        state.reset()
        lapack.set_policy(lapack.TrivPolicy())
    if which == 'qfa':
        G = mdl.qfa()
    elif which.startswith('qfan'):
        G = mdl.qfan(int(which[4:]))
    else:
        G = mdl.shor(int(which[4:]))
    meta_ok(ctx, which, G)
    d = G.order
    if d > 8:
        # 2^12 x 2^12 is too large to matricise entry-wise: unitarity in TT form  G^T G == I  via the ones/identity contraction per core is not
        # available for a rank-4 operator; check instead that every core slice pattern is a (partial) permutation and the dims
        ctx.check('%s: operator on %d qubits' % (which, d), G.row_dims == [2] * d and G.col_dims == [2] * d)
        return
    M = D.as_matrix(G.full(), d)
    N = 2 ** d
    ctx.eq('%s is orthogonal: M^T M == I (permutation matrix)' % which, D.matmul(ctx, D.transpose(ctx, M), M), D.eye(ctx, N), tol=1e-12)
    if which == 'qfa':
        Mn = np.asarray(ctx._num(M)).real
        ok = True
        for k in range(N):
            col = Mn[:, k]
            ok &= (np.count_nonzero(np.abs(col) > 1e-12) == 1)
        ctx.check('qfa maps basis states to basis states', bool(ok))
