"""C14 -- basis functions: derivatives are the derivatives of the function."""
import itertools

import numpy as np

from symtt.core import scenario, HarnessError, SkipTV
from symtt import dense as D

META = {
    'explanation': 'For every differentiable bundled family the object is evaluated at a SYMBOLIC point (its own __call__ builds the term; sin/cos/exp are '
                   'uninterpreted functions); a structural differentiator (sum, product, quotient, chain rule with sin\'=cos, cos\'=-sin, exp\'=exp; ~70 lines, '
                   'validated numerically against central differences at start-up) derives the true first and second partials from that term, and the solver '
                   'decides that partial / partial2 (ALL direction pairs, so mixed and foreign coordinates must be 0) / gradient / hessian returned by the object are '
                   'identical to them for all points and parameters. Evaluation on an array of points equals point-wise evaluation. Legendre coefficients come from '
                   'SciPy as floats: there the identity is decided up to 1e-9 on the box [-4,4] (epsilon-identity, stated). int_point: at points handed over as integer arrays or lists of Python ints, value / partials / gradient / Hessian equal those at the same point stored as floats. history: a function object evaluated at the same array after an in-place change, at another array and at the first array again returns what a fresh object returns; the array of points is left unchanged.',
    'bounds': {'quick': 'ConstantFunction, Identity, Monomial (exponent 0-4, symbolic prefactor), Legendre (degree 0-5, domains {1, 2, 0.5}), Sin, Cos (symbolic alpha), '
                        'GaussFunction (symbolic mean, variance>0), PeriodicGaussFunction (first derivative); dimension 1-3, every index',
               'thorough': 'Legendre degree up to 8, dimension 4'},
    'outside': ['Bspline: evaluation is inside compiled scipy.interpolate (only the wiring partial == derivative spline and zero in other coordinates is checked on concrete knots)',
                'IndicatorFunction (not differentiable by design)', 'PeriodicGaussFunction.partial2 / Bspline.partial2 raise NotImplementedError by design'],
    'assumptions': ['sin, cos, exp are the usual functions: only sin\'=cos, cos\'=-sin, exp\'=exp and sin(-u)=-sin u, cos(-u)=cos u are used'],
    'tv_per_scenario': {'quick': 1000, 'thorough': 1000},
}


# --------------------------------------------------------------- structural differentiator
def diff_term(t, x, cache=None):
    """d t / d x for a z3 Real term built from + - * / and the uninterpreted sin/cos/exp"""
    import z3
    if cache is None:
        cache = {}
    k = t.get_id()
    if k in cache:
        return cache[k]
    if z3.is_rational_value(t) or z3.is_algebraic_value(t):
        r = z3.RealVal(0)
    elif z3.is_const(t):
        r = z3.RealVal(1) if t.eq(x) else z3.RealVal(0)
    else:
        kind = t.decl().kind()
        ch = t.children()
        if kind == z3.Z3_OP_ADD:
            r = sum((diff_term(c, x, cache) for c in ch[1:]), diff_term(ch[0], x, cache))
        elif kind == z3.Z3_OP_SUB:
            r = diff_term(ch[0], x, cache)
            for c in ch[1:]:
                r = r - diff_term(c, x, cache)
        elif kind == z3.Z3_OP_UMINUS:
            r = -diff_term(ch[0], x, cache)
        elif kind == z3.Z3_OP_MUL:
            r = z3.RealVal(0)
            for i in range(len(ch)):
                term = diff_term(ch[i], x, cache)
                for j in range(len(ch)):
                    if j != i:
                        term = term * ch[j]
                r = r + term
        elif kind == z3.Z3_OP_DIV:
            u, v = ch
            r = (diff_term(u, x, cache) * v - u * diff_term(v, x, cache)) / (v * v)
        elif kind == z3.Z3_OP_POWER:
            base, e = ch
            if not z3.is_rational_value(e) or e.denominator_as_long() != 1:
                raise NotImplementedError('power with non-integer exponent')
            n = e.numerator_as_long()
            r = z3.RealVal(n) * base ** (n - 1) * diff_term(base, x, cache)
        elif kind == z3.Z3_OP_UNINTERPRETED and len(ch) == 1:
            name = t.decl().name()
            u = ch[0]
            du = diff_term(u, x, cache)
            f = t.decl()
            R = z3.RealSort()
            if name == 'sin':
                r = z3.Function('cos', R, R)(u) * du
            elif name == 'cos':
                r = -z3.Function('sin', R, R)(u) * du
            elif name == 'exp':
                r = t * du
            else:
                raise NotImplementedError('unknown function %s' % name)
        elif kind == z3.Z3_OP_TO_REAL:
            r = z3.RealVal(0)
        else:
            raise NotImplementedError('differentiator: operator %s' % t.decl().name())
    cache[k] = r
    return r


def _validate_differentiator():
    """numeric validation against central differences (start-up guard)"""
    import z3
    x, y = z3.Reals('vx vy')
    R = z3.RealSort()
    s, c, e = z3.Function('sin', R, R), z3.Function('cos', R, R), z3.Function('exp', R, R)
    t = (x * x * y + 3) / (1 + y * y) - s(2 * x + y) * e(-x * x / 2) + c(x) * x
    d = diff_term(t, x)
    import math

    def ev(term, vx, vy):
        def go(u):
            if z3.is_rational_value(u):
                return u.numerator_as_long() / u.denominator_as_long()
            if z3.is_const(u):
                return vx if u.eq(x) else vy
            k = u.decl().kind()
            ch = [go(w) for w in u.children()]
            if k == z3.Z3_OP_ADD:
                return sum(ch)
            if k == z3.Z3_OP_SUB:
                return ch[0] - sum(ch[1:])
            if k == z3.Z3_OP_UMINUS:
                return -ch[0]
            if k == z3.Z3_OP_MUL:
                p = 1.0
                for w in ch:
                    p *= w
                return p
            if k == z3.Z3_OP_DIV:
                return ch[0] / ch[1]
            if k == z3.Z3_OP_POWER:
                return ch[0] ** ch[1]
            nm = u.decl().name()
            return {'sin': math.sin, 'cos': math.cos, 'exp': math.exp}[nm](ch[0])
        return go(term)
    for (a, b) in ((0.3, -0.7), (1.1, 0.4), (-0.9, 1.3)):
        h = 1e-6
        fd = (ev(t, a + h, b) - ev(t, a - h, b)) / (2 * h)
        if abs(fd - ev(d, a, b)) > 1e-6:
            raise HarnessError('structural differentiator disagrees with central differences')


def _d(ctx, val, xsym):
    """derivative of an Sc value (real) w.r.t. the z3 symbol xsym, as Sc"""
    from symtt.scalar import Sc, zterm
    import z3
    v = Sc.of(val)
    if v.is_concrete:
        return Sc(0)
    return Sc(z3.simplify(diff_term(v.re, xsym)))


FAMILIES = ['constant', 'identity', 'monomial', 'legendre', 'sin', 'cos', 'gauss', 'pgauss']


def _make(ctx, fam, tdt, index, dim, param):
    with ctx.determined():
        return _make2(ctx, fam, tdt, index, dim, param)


def _make2(ctx, fam, tdt, index, dim, param):
    if fam == 'constant':
        return tdt.ConstantFunction(index, dim), False
    if fam == 'identity':
        return tdt.Identity(index, dim), False
    if fam == 'monomial':
        return tdt.Monomial(index, param, prefactor=ctx.scalar('prefactor'), dimension=dim), False
    if fam == 'legendre':
        deg, dom = param
        # epsilon-claim box: [-4, 4] up to degree 5; for degrees 6-8 the float coefficients (up to ~1e3) times |t/domain|^7 would exceed 1e-9 by
        # rounding alone, so the box is twice the natural interval, |t| <= 2 domain
        return tdt.Legendre(index, deg, domain=dom, dimension=dim), (4 if deg <= 5 else 2 * dom)
    if fam == 'sin':
        return tdt.Sin(index, ctx.scalar('alpha'), dim), False
    if fam == 'cos':
        return tdt.Cos(index, ctx.scalar('alpha'), dim), False
    if fam == 'gauss':
        return tdt.GaussFunction(index, ctx.scalar('mean'), ctx.scalar('variance', lo=(0,)), dim), False
    if fam == 'pgauss':
        return tdt.PeriodicGaussFunction(index, ctx.scalar('mean'), ctx.scalar('variance', lo=(0,)), dim), False
    raise KeyError(fam)


def _grid(tier):
    out = []
    for fam in FAMILIES:
        params = [None]
        if fam == 'monomial':
            params = [0, 1, 2, 3, 4]
        if fam == 'legendre':
            params = [[deg, dom] for deg in range(0, 6 if tier == 'quick' else 9) for dom in (1.0, 2.0, 0.5)]
        for p in params:
            for dim in (1, 2, 3) if tier == 'quick' else (1, 2, 3, 4):
                for index in range(dim):
                    if fam == 'legendre' and dim == 3 and p[1] != 2.0:
                        continue
                    out.append({'family': fam, 'param': p, 'dim': dim, 'index': index})
    return out


def _parity_lemmas(a, b):
    """sin(-u) = -sin u, cos(-u) = cos u, instantiated for every pair of trigonometric arguments occurring in the two values"""
    import z3
    from symtt.scalar import Sc
    from symtt.array import asobj
    args = {}
    for arr in (a, b):
        for e in asobj(arr).plain().flat:
            for comp in (Sc.of(e).re, Sc.of(e).im):
                if isinstance(comp, z3.ExprRef):
                    stack, seen = [comp], set()
                    while stack:
                        t = stack.pop()
                        if t.get_id() in seen:
                            continue
                        seen.add(t.get_id())
                        if z3.is_app(t) and t.decl().kind() == z3.Z3_OP_UNINTERPRETED and t.num_args() == 1 and t.decl().name() in ('sin', 'cos'):
                            args[t.arg(0).get_id()] = t.arg(0)
                        stack.extend(t.children())
    R = z3.RealSort()
    sin, cos = z3.Function('sin', R, R), z3.Function('cos', R, R)
    lem = []
    L = list(args.values())
    for i in range(len(L)):
        for j in range(i + 1, len(L)):
            u, v = L[i], L[j]
            lem.append(z3.Implies(u == -v, z3.And(sin(u) == -sin(v), cos(u) == cos(v))))
    return lem


def _eps_eq(ctx, label, a, b, approx, syms):
    """exact identity, or (float-coefficient families) |a-b| <= 1e-9 for all symbols in [-4,4]"""
    if not approx:
        return ctx.eq(label, a, b, extra_assumptions=_parity_lemmas(a, b))
    import z3
    from symtt.scalar import Sc, zterm
    from symtt.array import asobj
    A, B = asobj(a).reshape(-1), asobj(b).reshape(-1)
    conds = []
    for x, y in zip(A.plain(), B.plain()):
        dd = zterm((Sc.of(x) - Sc.of(y)).re)
        conds.append(z3.And(dd <= z3.Q(1, 10 ** 9), dd >= -z3.Q(1, 10 ** 9)))
    hw = 4 if approx is True else approx
    from fractions import Fraction
    fr = Fraction(hw).limit_denominator(1000)
    q = z3.Q(fr.numerator, fr.denominator)
    box = [z3.And(s >= -q, s <= q) for s in syms]
    with ctx.group(label):
        return ctx.check(label + ' (|difference| <= 1e-9 on the box [-%g,%g]: SciPy float coefficients)' % (hw, hw), z3.Implies(z3.And(*box), z3.And(*conds)), form='I')


@scenario('C14', 'derivatives', _grid)
def derivatives(ctx, family, param, dim, index):
    """partial, partial2 (all direction pairs), gradient, hessian == structural derivatives of the object's own evaluation"""
    tdt = ctx.R.transform
    if ctx.mode == 'tv':
        raise SkipTV()
    f, approx = _make(ctx, family, tdt, index, dim, param)
    has_p2 = family != 'pgauss'
    if not ctx.sym:
        # concrete replay: central differences at the given point
        t = np.array([ctx.scalar('t%d' % i) for i in range(dim)], dtype=float)
        h = 1e-5

        def val(p):
            return float(np.real(f(p)))
        for a in range(dim):
            e = np.zeros(dim); e[a] = h
            fd = (val(t + e) - val(t - e)) / (2 * h)
            ctx.eq('partial(t, %d) == d f / d t_%d' % (a, a), f.partial(t, a), fd, tol=1e-6)
            if has_p2:
                for b in range(dim):
                    e2 = np.zeros(dim); e2[b] = h
                    fd2 = (val(t + e + e2) - val(t + e - e2) - val(t - e + e2) + val(t - e - e2)) / (4 * h * h)
                    ctx.eq('partial2(t, %d, %d) == d^2 f / d t_%d d t_%d' % (a, b, a, b), f.partial2(t, a, b), fd2, tol=1e-4)
        g = np.asarray(f.gradient(t), dtype=float)
        ctx.eq('gradient == vector of the partials', g, np.array([float(f.partial(t, a)) for a in range(dim)]))
        if has_p2:
            ctx.eq('hessian == matrix of the second partials', np.asarray(f.hessian(t), dtype=float),
                   np.array([[float(f.partial2(t, a, b)) for b in range(dim)] for a in range(dim)]))
        return
    _validate_differentiator()
    from symtt.scalar import Sc
    from symtt.array import asobj
    ts = [ctx.scalar('t%d' % i) for i in range(dim)]
    syms = [s.re for s in ts]
    t = asobj(ts)
    t.kind = 'f'
    val = Sc.of(f(t))
    d1 = [_d(ctx, val, syms[a]) for a in range(dim)]
    for a in range(dim):
        _eps_eq(ctx, 'partial(t, %d) == d f / d t_%d' % (a, a), f.partial(t, a), d1[a], approx, syms)
    if has_p2:
        for a in range(dim):
            for b in range(dim):
                d2 = _d(ctx, d1[a], syms[b])
                _eps_eq(ctx, 'partial2(t, %d, %d) == d^2 f / d t_%d d t_%d' % (a, b, a, b), f.partial2(t, a, b), d2, approx, syms)
    g = f.gradient(t)
    gv = ctx.zeros((dim,), cplx=False)
    for a in range(dim):
        D._set(gv, (a,), d1[a])
    ctx.check('gradient has one entry per coordinate', np.shape(g) == (dim,))
    _eps_eq(ctx, 'gradient == vector of the partials', g, gv, approx, syms)
    if has_p2:
        H = f.hessian(t)
        Hv = ctx.zeros((dim, dim), cplx=False)
        for a in range(dim):
            for b in range(dim):
                D._set(Hv, (a, b), _d(ctx, d1[a], syms[b]))
        ctx.check('hessian is dim x dim', np.shape(H) == (dim, dim))
        _eps_eq(ctx, 'hessian == matrix of the second partials', H, Hv, approx, syms)
    else:
        try:
            f.partial2(t, 0, 0)
            ctx.fail('partial2 of PeriodicGaussFunction is documented as not implemented', 'it returned a value')
        except NotImplementedError:
            ctx.held('partial2 of PeriodicGaussFunction raises NotImplementedError (documented)')


@scenario('C14', 'vectorised', lambda tier: [{'family': fam, 'param': p, 'm': m} for fam in FAMILIES + ['indicator']
                                              for p in ([2] if fam == 'monomial' else [[3, 2.0]] if fam == 'legendre' else [None]) for m in (1, 3)])
def vectorised(ctx, family, param, m):
    """evaluation on an array of points (a d x m data matrix) == evaluation point by point; same for partial"""
    tdt = ctx.R.transform
    if ctx.mode == 'tv':
        raise SkipTV()
    dim, index = 2, 1
    X = ctx.input('X', (dim, m), False)
    if family == 'indicator':
        f = tdt.IndicatorFunction(index, -0.5, 0.5, dim)
        if ctx.sym:
            ctx.held('indicator function: array evaluation is a comparison of symbolic data (data-dependent); checked on concrete replays only')
            return
        vals = np.asarray(f(X))
        ctx.eq('indicator: array evaluation == point-wise', vals, np.array([float(f(X[:, j])) for j in range(m)]))
        return
    f, approx = _make(ctx, family, tdt, index, dim, param)
    arr = f(X)
    pt = ctx.zeros((m,), cplx=False)
    for j in range(m):
        D._set(pt, (j,), f(X[:, j]) if family != 'constant' else ctx.const_frac(1))
    ctx.check('array evaluation returns one value per point', np.shape(arr) == (m,))
    ctx.eq('array evaluation == point-wise evaluation', arr, pt)
    if family not in ('constant',):
        pa = f.partial(X, index)
        pp = ctx.zeros((m,), cplx=False)
        for j in range(m):
            D._set(pp, (j,), f.partial(X[:, j], index))
        if np.shape(pa) == (m,):
            ctx.eq('array partial == point-wise partial', pa, pp)
    ctx.eq('the array of points handed to the function object is left unchanged', X, ctx.input('X', (dim, m), False))


@scenario('C14', 'bspline_wiring', lambda tier: [{'degree': dg} for dg in (1, 2, 3)])
def bspline(ctx, degree):
    """Bspline (compiled SciPy evaluation, concrete data only): partial == derivative spline in its coordinate, 0 elsewhere; array == point-wise"""
    tdt = ctx.R.transform
    if ctx.mode != 'conc':
        # scipy.interpolate.BSpline cannot be executed on symbolic data: not-applicable part, stated
        ctx.held('Bspline is evaluated by compiled scipy.interpolate: checked on concrete data only (replay / concrete runs)')
        ctx.held('see DESIGN: outside the solver claim')
        return
    knots = np.linspace(-1, 1, 5)
    coeff = np.arange(1, len(knots) - 1 + degree + 1, dtype=float) ** 1.5
    f = tdt.Bspline(1, knots, degree, coeff, 2)
    pts = np.array([[0.1, 0.2, -0.3], [-0.7, 0.05, 0.6]])
    h = 1e-6
    for j in range(pts.shape[1]):
        t = pts[:, j]
        e = np.array([0.0, h])
        fd = (f(t + e) - f(t - e)) / (2 * h)
        ctx.eq('Bspline.partial in its coordinate == derivative (point %d)' % j, f.partial(t, 1), fd, tol=1e-5)
        ctx.eq('Bspline.partial in the other coordinate == 0 (point %d)' % j, f.partial(t, 0), 0.0)
    ctx.eq('Bspline: array evaluation == point-wise', np.asarray(f(pts)), np.array([float(f(pts[:, j])) for j in range(pts.shape[1])]))


# ------------------------------------------------------------ points stored with an integer dtype
@scenario('C14', 'int_point', lambda tier: [{'family': fam, 'param': p, 'dim': dim, 'index': index, 'as_list': al}
                                             for fam in FAMILIES for p in ([3] if fam == 'monomial' else [[3, 2.0]] if fam == 'legendre' else [None])
                                             for (dim, index) in ((1, 0), (3, 1)) for al in (False, True)])
def int_point(ctx, family, param, dim, index, as_list):
    """a point handed over as an integer array / list of Python ints: value, partials, gradient and Hessian are those at the same point stored as floats
    (symbolic family parameters; the derivative formulas at float points are the `derivatives` claim)"""
    tdt = ctx.R.transform
    if ctx.mode == 'tv':
        raise SkipTV()
    f, approx = _make(ctx, family, tdt, index, dim, param)
    vals = [1, -2, 3][:dim]
    ti = list(vals) if as_list else np.array(vals, dtype=int)
    tf = np.array(vals, dtype=float)
    has_p2 = family != 'pgauss'
    kw = {'tol': 1e-12}
    ctx.eq('value at an integer-typed point == value at the float point', f(ti), f(tf), **kw)
    for a in range(dim):
        ctx.eq('partial(t, %d) at an integer-typed point == at the float point' % a, f.partial(ti, a), f.partial(tf, a), **kw)
    gi, gf = f.gradient(ti), f.gradient(tf)
    ctx.check('gradient at an integer-typed point has one entry per coordinate', np.shape(gi) == (dim,))
    ctx.eq('gradient at an integer-typed point == at the float point', gi, gf, **kw)
    if has_p2:
        ctx.eq('partial2 at an integer-typed point == at the float point', f.partial2(ti, index, index), f.partial2(tf, index, index), **kw)
        ctx.eq('hessian at an integer-typed point == at the float point', f.hessian(ti), f.hessian(tf), **kw)


# ------------------------------------------------------------ function objects carry no state between calls
@scenario('C14', 'history', lambda tier: [{'family': fam, 'param': p} for fam in FAMILIES for p in ([2] if fam == 'monomial' else [[2, 2.0]] if fam == 'legendre' else [None])])
def history(ctx, family, param):
    """a function object evaluated at a point, then at the SAME array object after it was changed in place (an integration or finite-difference loop),
    then at another array, returns each time what a fresh object returns at a fresh array: value, partial, gradient, Hessian"""
    tdt = ctx.R.transform
    if ctx.mode == 'tv':
        raise SkipTV()
    dim, index = 2, 1
    f, approx = _make(ctx, family, tdt, index, dim, param)
    g, _ = _make(ctx, family, tdt, index, dim, param)          # fresh object with the same parameters: the reference
    has_p2 = family != 'pgauss'

    def point(name):
        if ctx.sym:
            from symtt.array import asobj
            a = asobj([ctx.scalar('%s%d' % (name, i)) for i in range(dim)])
            a.kind = 'f'
            return a
        return np.array([ctx.scalar('%s%d' % (name, i)) for i in range(dim)], dtype=float)
    t, u = point('t'), point('u')
    delta = ctx.scalar('delta')
    first = f(t)                                                # noqa: F841  (warms whatever the object may remember)
    f.partial(t, index)
    t[index] = t[index] + delta                                 # the caller moves the point in place
    t2 = point('t')
    t2[index] = t2[index] + delta
    seq = [('the same array after an in-place change', t, t2), ('another array', u, point('u')), ('the first array again', t, t2)]
    for what, a, fresh in seq:
        ctx.eq('value at %s == value of a fresh object' % what, f(a), g(fresh))
        ctx.eq('partial at %s == partial of a fresh object' % what, f.partial(a, index), g.partial(fresh, index))
        ctx.eq('gradient at %s == gradient of a fresh object' % what, f.gradient(a), g.gradient(fresh))
        if has_p2:
            ctx.eq('hessian at %s == hessian of a fresh object' % what, f.hessian(a), g.hessian(fresh))
