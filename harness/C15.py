"""C15 -- transformed data tensors equal the tensor of basis-function products."""
import itertools

import numpy as np

from symtt.core import unchanged_inputs, scenario, HarnessError, SkipTV
from symtt import dense as D
from .common import meta_ok

META = {
    'explanation': 'basis_decomposition, coordinate_major, function_major (add_one on/off), their single_core variants and gram are executed on SYMBOLIC data '
                   'matrices with basis lists mixing the bundled families (sin/cos/exp uninterpreted): every entry (i_1..i_p, j) of the dense value equals the '
                   'product of the selected functions at snapshot j; single_core(k) is exactly core k of the full train; gram == Psi(x1)^T Psi(x2). HOCUR: '
                   '(I) __hocur_extract_matrix for nested row/column multi-index lists (first / middle / last position, every list shape that the sweeps produce) '
                   'equals the corresponding entries of the dense transformed tensor; (I, rational) hocur end to end with the data-dependent pivot searches '
                   '(pivoted QR, max-volume) replaced by ARBITRARY admissible selections and np.linalg.inv by the exact adjugate inverse: with ranks >= true ranks '
                   'the returned train reproduces the tensor wherever the intersection matrices are invertible. int_data: data matrices of integer dtype give the same tensors and single cores as their float copies. Concrete replays of hocur_exact run the unmodified hocur (own pivot searches, real LAPACK) with ranks >= the true ranks against the dense tensor. NOT solver-decided, sampled by the validation run (scenario hocur_sizes): the unmodified hocur with ranks >= the true ranks on basis lists of unequal size ([4,2,3], [2,4,3], [4,3,4,3]).',
    'bounds': {'quick': 'state dimension 1-3, snapshots 1-3, 1-3 modes with 1-3 functions from {Constant, Identity, Monomial, Sin, Cos, Gauss}; HOCUR end to end: '
                        '2 modes x 2 functions, 2 snapshots, ranks 2, two pivot selections', 'thorough': 'more family mixtures, 3 snapshots in HOCUR extraction'},
    'outside': ['HOCUR pivot selection itself (pivoted QR / max-volume iteration are data-dependent control through LAPACK)', 'rounding'],
    'assumptions': ['intersection matrices chosen by the pivot search are invertible (their determinants are the recorded denominators)'],
    'tv_per_scenario': {'quick': 1000, 'thorough': 1000},
}


def _funcs(ctx, tdt, d, which):
    """a list of basis functions of the named mixture, indices spread over the d coordinates"""
    out = []
    for k, w in enumerate(which):
        idx = k % d
        if w == 'const':
            out.append(tdt.ConstantFunction(idx))
        elif w == 'id':
            out.append(tdt.Identity(idx))
        elif w == 'mono2':
            out.append(tdt.Monomial(idx, 2))
        elif w == 'mono3':
            out.append(tdt.Monomial(idx, 3, prefactor=2))
        elif w == 'sin':
            out.append(tdt.Sin(idx, 2))
        elif w == 'cos':
            out.append(tdt.Cos(idx, 3))
        elif w == 'gauss':
            out.append(tdt.GaussFunction(idx, 0, 1))
        else:
            raise KeyError(w)
    return out


def _dense(ctx, x, phi):
    """T[i_1..i_p, j] = prod_k phi[k][i_k](x[:, j])"""
    m = x.shape[1]
    n = [len(f) for f in phi]
    T = ctx.zeros(tuple(n) + (m,), cplx=False)
    vals = [[[f(x[:, j]) for j in range(m)] for f in fl] for fl in phi]
    for idx in itertools.product(*[range(k) for k in n]):
        for j in range(m):
            v = ctx.const_frac(1)
            for k, i in enumerate(idx):
                v = v * vals[k][i][j]
            D._set(T, idx + (j,), v)
    return T


MIXES = [[['id', 'sin']], [['const', 'id', 'mono2'], ['cos', 'id']], [['sin', 'cos'], ['id', 'mono3'], ['gauss', 'const']],
         [['id'], ['id', 'mono2', 'sin']], [['gauss', 'cos', 'id'], ['const', 'sin']]]


def _bd_grid(tier):
    out = []
    for d in (1, 2, 3):
        for m in (1, 2, 3):
            for mi, mix in enumerate(MIXES):
                if tier == 'quick' and (d + m + mi) % 2 and m > 1:
                    continue
                out.append({'d': d, 'm': m, 'mix': mix})
    return out


@scenario('C15', 'basis_decomposition', _bd_grid)
@unchanged_inputs('x')
def basis_decomposition(ctx, d, m, mix):
    """basis_decomposition(x, phi) and its single_core variants"""
    tdt = ctx.R.transform
    if ctx.mode == 'tv':
        raise SkipTV()
    x = ctx.input('x', (d, m), False)
    phi = [_funcs(ctx, tdt, d, w) for w in mix]
    p = len(phi)
    psi = tdt.basis_decomposition(x, phi)
    meta_ok(ctx, 'basis_decomposition', psi)
    ctx.check('dims: one mode per function list plus the snapshot mode', psi.row_dims == [len(f) for f in phi] + [m] and psi.col_dims == [1] * (p + 1))
    T = _dense(ctx, x, phi)
    ctx.eq('basis_decomposition: entry (i_1..i_p, j) == product of the selected functions at snapshot j', psi.full().reshape(T.shape), T)
    for k in range(p):
        c = tdt.basis_decomposition(x, phi, single_core=k)
        ctx.eq('single_core=%d == core %d of the full train' % (k, k), c, psi.cores[k])


def _cm_grid(tier):
    out = []
    fams = [['id', 'sin'], ['const', 'mono2', 'cos'], ['gauss']]
    for d in (1, 2, 3):
        for m in (1, 2, 3):
            for fi, fam in enumerate(fams):
                if tier == 'quick' and (d + m + fi) % 2 == 0 and m > 1:
                    continue
                out.append({'d': d, 'm': m, 'fam': fam})
    return out


def _scalar_funcs(ctx, tdt, fam):
    """functions of ONE variable (coordinate/function-major apply them to single coordinates x[i, j])"""
    out = []
    for w in fam:
        if w == 'const':
            out.append(lambda t: 1.0 + 0 * t)
        elif w == 'id':
            out.append(lambda t: t)
        elif w == 'mono2':
            out.append(lambda t: t * t)
        elif w == 'sin':
            out.append(lambda t: _apply(ctx, 'sin', t))
        elif w == 'cos':
            out.append(lambda t: _apply(ctx, 'cos', t))
        elif w == 'gauss':
            out.append(lambda t: _apply(ctx, 'exp', -0.5 * t * t))
    return out


def _apply(ctx, name, t):
    if ctx.mode == 'conc':
        return getattr(np, name)(t)
    from symtt.scalar import Sc
    return getattr(Sc.of(t), name)()


@scenario('C15', 'coordinate_function_major', _cm_grid)
@unchanged_inputs('x')
def coordinate_function_major(ctx, d, m, fam):
    """coordinate_major: mode i lists the functions applied to coordinate i; function_major: mode k lists function k applied to every coordinate (add_one on/off)"""
    tdt = ctx.R.transform
    if ctx.mode == 'tv':
        raise SkipTV()
    x = ctx.input('x', (d, m), False)
    fs = _scalar_funcs(ctx, tdt, fam)
    p = len(fs)
    # ---- coordinate major
    psi = tdt.coordinate_major(x, fs)
    meta_ok(ctx, 'coordinate_major', psi)
    ctx.check('coordinate_major dims', psi.row_dims == [p] * d + [m])
    T = ctx.zeros((p,) * d + (m,), cplx=False)
    for idx in itertools.product(range(p), repeat=d):
        for j in range(m):
            v = ctx.const_frac(1)
            for i in range(d):
                v = v * fs[idx[i]](D._get(x, (i, j)))
            D._set(T, idx + (j,), v)
    ctx.eq('coordinate_major: entry == product over coordinates of phi[i_k](x[k, j])', psi.full().reshape(T.shape), T)
    for k in range(d):
        ctx.eq('coordinate_major single_core=%d == core %d' % (k, k), tdt.coordinate_major(x, fs, single_core=k), psi.cores[k])
    # ---- function major
    for add_one in (True, False):
        psi = tdt.function_major(x, fs, add_one=add_one)
        meta_ok(ctx, 'function_major add_one=%s' % add_one, psi)
        n = d + (1 if add_one else 0)
        ctx.check('function_major dims (add_one=%s)' % add_one, psi.row_dims == [n] * p + [m])
        T = ctx.zeros((n,) * p + (m,), cplx=False)
        for idx in itertools.product(range(n), repeat=p):
            for j in range(m):
                v = ctx.const_frac(1)
                for k in range(p):
                    if add_one:
                        v = v * (ctx.const_frac(1) if idx[k] == 0 else fs[k](D._get(x, (idx[k] - 1, j))))
                    else:
                        v = v * fs[k](D._get(x, (idx[k], j)))
                D._set(T, idx + (j,), v)
        ctx.eq('function_major (add_one=%s): entry == product over functions of phi_k(x[i_k, j]) (index 0 = constant 1 if add_one)' % add_one,
               psi.full().reshape(T.shape), T)
        for k in range(p):
            ctx.eq('function_major single_core=%d (add_one=%s) == core %d' % (k, add_one, k), tdt.function_major(x, fs, add_one=add_one, single_core=k), psi.cores[k])


@scenario('C15', 'gram', lambda tier: [{'d': d, 'm1': a, 'm2': b, 'mix': mix} for d in (1, 2) for (a, b) in ((1, 1), (2, 3), (3, 1)) for mix in MIXES[:4]])
@unchanged_inputs('x', 'y')
def gram(ctx, d, m1, m2, mix):
    """gram(x1, x2, basis) == matrix of inner products of the transformed snapshots"""
    tdt = ctx.R.transform
    if ctx.mode == 'tv':
        raise SkipTV()
    x1 = ctx.input('x', (d, m1), False)
    x2 = ctx.input('y', (d, m2), False)
    phi = [_funcs(ctx, tdt, d, w) for w in mix]
    G = tdt.gram(x1, x2, phi)
    T1 = _dense(ctx, x1, phi)
    T2 = _dense(ctx, x2, phi)
    P1 = T1.reshape(-1, m1)
    P2 = T2.reshape(-1, m2)
    ctx.check('gram shape', tuple(np.shape(G)) == (m1, m2))
    ctx.eq('gram == Psi(x1)^T Psi(x2)', G, D.matmul(ctx, D.transpose(ctx, P1), P2))


# ----------------------------------------------------------------------------- HOCUR
def _extract_cases(n, m):
    """index-list shapes as produced by the sweeps: (row lists of depth i, column lists of depth p-i) ending in a snapshot index"""
    p = len(n)
    cases = []
    # first position: rows None, cols = [i_2, ..., i_p, snapshot]
    cols = [list(c) for c in itertools.product(*[range(k) for k in n[1:]], range(m))]
    cases.append((None, cols[::max(1, len(cols) // 4)]))
    for i in range(1, p):
        rows = [list(r) for r in itertools.product(*[range(k) for k in n[:i]])]
        cols = [list(c) for c in itertools.product(*[range(k) for k in n[i + 1:]], range(m))]
        cases.append((rows[::max(1, len(rows) // 3)], cols[::max(1, len(cols) // 3)]))
    rows = [list(r) for r in itertools.product(*[range(k) for k in n])]
    cases.append((rows[::max(1, len(rows) // 3)], None))
    cases.append((rows[:1], None))
    cases.append((rows[-2:], None))
    return cases


@scenario('C15', 'hocur_extract', lambda tier: [{'d': d, 'm': m, 'mix': mix} for d in (1, 2) for m in (1, 2, 3) for mix in MIXES[1:4]])
def hocur_extract(ctx, d, m, mix):
    """__hocur_extract_matrix(data, basis, rows, cols) == the addressed entries of the dense transformed tensor, laid out (row set, mode) x (column set)"""
    tdt = ctx.R.transform
    if ctx.mode == 'tv':
        raise SkipTV()
    ext = tdt.__dict__['__hocur_extract_matrix']
    x = ctx.input('x', (d, m), False)
    phi = [_funcs(ctx, tdt, d, w) for w in mix]
    n = [len(f) for f in phi]
    p = len(n)
    T = _dense(ctx, x, phi)
    with ctx.group('hocur reproduces the tensor of basis-function products'):
        for (rows, cols) in _extract_cases(n, m):
            M = ext(x, phi, rows, cols)
            if rows is None:
                exp = ctx.zeros((n[0], len(cols)), cplx=False)
                for a in range(n[0]):
                    for j, c in enumerate(cols):
                        D._set(exp, (a, j), D._get(T, (a,) + tuple(c)))
                pos = 'first'
            elif cols is None:
                exp = ctx.zeros((len(rows) * m, 1), cplx=False)
                for i, r in enumerate(rows):
                    for j in range(m):
                        D._set(exp, (i * m + j, 0), D._get(T, tuple(r) + (j,)))
                pos = 'last'
            else:
                k = len(rows[0])
                exp = ctx.zeros((len(rows) * n[k], len(cols)), cplx=False)
                for i, r in enumerate(rows):
                    for a in range(n[k]):
                        for j, c in enumerate(cols):
                            D._set(exp, (i * n[k] + a, j), D._get(T, tuple(r) + (a,) + tuple(c)))
                pos = 'middle (mode %d)' % k
            ctx.check('extract_matrix (%s): shape' % pos, tuple(M.shape) == tuple(exp.shape), detail='%s vs %s' % (M.shape, exp.shape))
            if tuple(M.shape) == tuple(exp.shape):
                ctx.eq('extract_matrix (%s, %d row sets, %s column sets) == entries of the dense tensor' % (pos, 0 if rows is None else len(rows),
                                                                                                        'all' if cols is None else len(cols)), M, exp)
    if not ctx.sym:
        # concrete mode: the end-to-end statement (used to confirm counterexamples): hocur with ranks >= true ranks reproduces the tensor
        r = min(m, int(np.prod(n)))
        for rr in sorted(set([r, max(1, r - 1)])):
            psi = tdt.hocur(np.asarray(x), phi, ranks=m, repeats=1, multiplier=10, progress=False)
        full = np.asarray(psi.full()).reshape(np.asarray(T).shape)
        true_rank = np.linalg.matrix_rank(np.asarray(T).reshape(-1, m))
        if all(rk >= true_rank for rk in psi.ranks[1:-1]):
            ctx.eq('hocur reproduces the tensor of basis-function products', full, np.asarray(T), tol=1e-6)


@scenario('C15', 'hocur_exact', lambda tier: [{'sel': s, 'mix': mix} for s in (0, 1) for mix in ([['const', 'id'], ['id', 'mono2']], [['id', 'const'], ['const', 'id']])])
def hocur_exact(ctx, sel, mix):
    """hocur end to end, 2 modes x 2 functions, 2 snapshots, ranks 2: pivot searches replaced by admissible selections, exact adjugate inverse"""
    tdt = ctx.R.transform
    if ctx.mode == 'tv':
        raise SkipTV()
    if ctx.mode == 'conc':
        # concrete replays: the unmodified hocur (its own pivot searches, real LAPACK) with ranks >= the true ranks reproduces the dense tensor
        xc = np.asarray(ctx.input('x', (1, 2), False))
        phic = [_funcs(ctx, tdt, 1, w) for w in mix]
        Tc = np.asarray(_dense(ctx, xc, phic), dtype=float)
        np.random.seed(7)
        psi = tdt.hocur(xc, phic, 2, repeats=2, progress=False)
        meta_ok(ctx, 'hocur', psi)
        sv = np.linalg.svd(Tc.reshape(Tc.shape[0], -1), compute_uv=False)
        sv2 = np.linalg.svd(Tc.reshape(-1, Tc.shape[-1]), compute_uv=False)
        cond_ok = min(sv[sv > 1e-12 * sv[0]].min() / sv[0], sv2[sv2 > 1e-12 * sv2[0]].min() / sv2[0]) > 1e-4
        if cond_ok:
            ctx.eq('hocur (pivot selection %d) reproduces the tensor of basis-function products wherever the intersections are invertible' % sel,
                   np.asarray(psi.full()).reshape(Tc.shape), Tc, tol=1e-6)
        return
    from symtt import state, lapack
    from symtt.scalar import Sc
    from symtt.array import asobj, SymArray
    d, m = 1, 2
    x = ctx.input('x', (d, m), False)
    phi = [_funcs(ctx, tdt, d, w) for w in mix]
    n = [len(f) for f in phi]
    T = _dense(ctx, x, phi)

    class ExactInv(lapack.FreePolicy):
        def inv(self, A):
            A = asobj(A)
            k = A.shape[0]
            out = SymArray((k, k), A.kind)
            p = A.plain()
            if k == 1:
                out.plain()[0, 0] = Sc(1) / p[0, 0]
            elif k == 2:
                det = p[0, 0] * p[1, 1] - p[0, 1] * p[1, 0]
                out.plain()[0, 0] = p[1, 1] / det
                out.plain()[0, 1] = -p[0, 1] / det
                out.plain()[1, 0] = -p[1, 0] / det
                out.plain()[1, 1] = p[0, 0] / det
            else:
                raise NotImplementedError('exact inverse beyond 2x2')
            return out
    state.reset()
    lapack.set_policy(ExactInv())
    g = tdt.__dict__
    real_li, real_mv = g['__hocur_find_li_cols'], g['__hocur_maxvolume']

    def fake_li(matrix, tol=1e-14):
        k = matrix.shape[1]
        return list(range(k)) if sel == 0 else list(range(k - 1, -1, -1))

    def fake_mv(matrix, maximum_iterations=1000, tolerance=1e-5):
        k = matrix.shape[1]
        rows = list(range(matrix.shape[0]))
        return rows[:k] if sel == 0 else rows[-k:]
    g['__hocur_find_li_cols'], g['__hocur_maxvolume'] = fake_li, fake_mv
    try:
        psi = tdt.hocur(x, phi, ranks=2, repeats=1, multiplier=10, progress=False)
    finally:
        g['__hocur_find_li_cols'], g['__hocur_maxvolume'] = real_li, real_mv
    meta_ok(ctx, 'hocur', psi)
    ctx.check('hocur dims', psi.row_dims == n + [m])
    ctx.eq('hocur (pivot selection %d) reproduces the tensor of basis-function products wherever the intersections are invertible' % sel,
           psi.full().reshape(T.shape), T)


# -------------------------------------------------------------- data stored with an integer dtype
@scenario('C15', 'int_data', lambda tier: [{'which': 'basis_decomposition', 'add_one': True}, {'which': 'coordinate_major', 'add_one': True},
                                            {'which': 'function_major', 'add_one': True}, {'which': 'function_major', 'add_one': False}])
def int_data(ctx, which, add_one):
    """a data matrix of integer dtype (counts, lattice states, pixel values): the transformed tensor still holds the products of the basis functions, which are
    not integer-valued (concrete integer data, exact terms sin(2), exp(-1/2), ... for the function values); reference = the same construction on the float
    copy of the data, whose value is the basis_decomposition / coordinate_function_major claim"""
    tdt = ctx.R.transform
    if ctx.mode == 'tv':
        raise SkipTV()
    xi = np.array([[1, -2, 0], [3, 1, -1]], dtype=int)
    d, m = xi.shape
    xf = ctx.lift(xi.astype(float))
    if which == 'basis_decomposition':
        phi = [_funcs(ctx, tdt, d, w) for w in [['const', 'id', 'sin'], ['cos', 'gauss']]]
        fn = lambda x, **kw: tdt.basis_decomposition(x, phi, **kw)
    else:
        fl = _scalar_funcs(ctx, tdt, ['sin', 'gauss', 'mono2'])
        if which == 'coordinate_major':
            fn = lambda x, **kw: tdt.coordinate_major(x, fl, **kw)
        else:
            fn = lambda x, **kw: tdt.function_major(x, fl, add_one=add_one, **kw)
    psi = fn(xi)
    ref = fn(xf)
    meta_ok(ctx, which + ' (integer data)', psi)
    ctx.eq('%s on integer-typed data == tensor of basis-function products' % which, psi.full(), ref.full(), tol=1e-12)
    for k in range(psi.order - 1):
        ctx.eq('%s on integer-typed data: single_core=%d == core %d of the full train' % (which, k, k), fn(xi, single_core=k), ref.cores[k], tol=1e-12)


# ------------------------------------------------------------ HOCUR with unequal mode sizes (concrete only)
@scenario('C15', 'hocur_sizes', lambda tier: [{'sizes': sz, 'm': m} for (sz, m) in (([4, 2, 3], 12), ([3, 3, 3], 10), ([2, 4, 3], 12), ([4, 3, 4, 3], 9))])
def hocur_sizes(ctx, sizes, m):
    """NOT a solver verdict (the pivot searches are data-dependent control through LAPACK): the unmodified hocur, asked for ranks >= the true ranks,
    reproduces the dense tensor of basis-function products for basis lists of unequal size (larger mode before a smaller one and the reverse)"""
    tdt = ctx.R.transform
    if ctx.mode == 'tv':
        raise SkipTV()
    if ctx.sym:
        ctx.held('HOCUR end to end with its own pivot searches is exercised by the concrete validation run of this scenario (sampling, stated in the evidence)')
        return
    rng = np.random.RandomState(3 + sum(sizes) + m)
    d = len(sizes)
    x = rng.rand(d, m) * 2 - 1
    fams = [lambda t: 1.0 + 0 * t, lambda t: t, lambda t: np.sin(2 * t), lambda t: t * t, lambda t: np.cos(3 * t)]

    class F(object):
        def __init__(self, idx, k):
            self.idx, self.k = idx, k

        def __call__(self, t):
            return fams[self.k](t[self.idx])
    phi = [[F(i, k) for k in range(sizes[i])] for i in range(d)]
    T = np.zeros(tuple(sizes) + (m,))
    for idx in itertools.product(*[range(k) for k in sizes]):
        for j in range(m):
            v = 1.0
            for i, k in enumerate(idx):
                v *= float(phi[i][k](x[:, j]))
            T[idx + (j,)] = v
    np.random.seed(11)
    for ranks, reps in ((m, 1), (m, 3)):
        psi = tdt.hocur(x, phi, ranks, repeats=reps, progress=False)
        meta_ok(ctx, 'hocur', psi)
        err = float(np.linalg.norm(np.asarray(psi.full()).reshape(T.shape) - T) / np.linalg.norm(T))
        ctx.check('hocur(ranks >= true ranks, repeats=%d) reproduces the tensor of basis-function products' % reps, err <= 1e-8, detail='relative error %.3e, ranks %s' % (err, psi.ranks))
