"""C16 -- MANDy and ARR."""
import itertools

import numpy as np

from symtt.core import unchanged_inputs, scenario, HarnessError, SkipTV
from symtt import dense as D
from .common import mk_cores, meta_ok, free_policy
from .C15 import _funcs, _dense, _scalar_funcs

META = {
    'explanation': 'mandy_cm / mandy_fm on symbolic data: the returned coefficient train equals U . diag(1/s) . Vh . y^T with (U, s, Vh) the factors of the global SVD '
                   '(split before the snapshot mode) of the transformed data tensor -- entry-wise, under fresh symbolic SVD outputs, for under- and over-determined '
                   'snapshot counts; dims and metadata; the arguments of every internal SVD equal the unfoldings of the (left-orthonormalised) transformed tensor '
                   '(C05 + C15 make this the conjugate-transposed pseudoinverse times y^T). mandy_kb: the matrix handed to the solver is the Gram matrix Psi^T Psi and '
                   'the right-hand side is y^T on both branches of the condition-number test, the result is the (transposed) solver answer, hence z G = y by the '
                   'solve contract. ARR: at every micro-step of both half-sweeps micro_matrix^T vec(core_i) equals the predictions of the CURRENT coefficient train on all '
                   'snapshots (index-loop contraction with the transformed data tensor), the lstsq right-hand side is row k of y, the sweep schedule, ranks of the '
                   'guess never grow, the guess object is not modified. mandy_cm / mandy_fm are also run with complex-valued y (the formula has no conjugation). mandy_kb with basis lists of unequal size.',
    'bounds': {'quick': 'state dimension 1-2, snapshots 1-3, 1-2 outputs, bases of 2-3 functions (monomials, sin, cos), ARR: 2-3 modes, guess ranks {1,2}, repeats 1-2',
               'thorough': 'more bases / 3 outputs'},
    'outside': ['residual monotone in repeats: each lstsq minimises over a set containing the previous iterate (consequence of the decided consistency + the lstsq contract); '
                'the inequality is not solver-checked', 'rounding, rcond-regularisation effects'],
    'assumptions': ['SVD/solve/lstsq contracts', 's > 0 where MANDy divides by the singular values'],
    'tv_per_scenario': {'quick': 1000, 'thorough': 1000},
}


def _diag(ctx, s, inv=False):
    k = s.shape[0]
    out = ctx.zeros((k, k), cplx=False)
    for i in range(k):
        x = D._get(s, (i,))
        D._set(out, (i, i), ctx.const_frac(1) / x if inv else x)
    return out


def _mandy_grid(tier):
    out = []
    for variant in ('cm', 'fm', 'fm_noone'):
        for d in (1, 2):
            for m in (1, 2, 3):
                for ny in (1, 2):
                    for fam in (['id', 'mono2'], ['const', 'id', 'sin']):
                        if tier == 'quick' and (m == 3 and ny == 2):
                            continue
                        if variant != 'cm' and len(fam) == 3 and d == 2 and m == 3:
                            continue
                        out.append({'variant': variant, 'd': d, 'm': m, 'fam': fam, 'cplx_y': False})
        # complex-valued y (derivatives in complex coordinates, Fourier amplitudes): the formula (y Psi^+)^T has no conjugation
        out.append({'variant': variant, 'd': 2, 'm': 2, 'fam': ['id', 'mono2'], 'cplx_y': True})
        out.append({'variant': variant, 'd': 1, 'm': 3, 'fam': ['const', 'id', 'sin'], 'cplx_y': True})
    seen, res = set(), []
    for p in out:
        if repr(p) not in seen:
            seen.add(repr(p))
            res.append(p)
    return res


@scenario('C16', 'mandy', _mandy_grid)
@unchanged_inputs('x', 'y')
def mandy(ctx, variant, d, m, fam, cplx_y=False):
    """mandy_cm / mandy_fm == U diag(1/s) Vh y^T with the global SVD factors of the transformed data tensor"""
    reg, tdt = ctx.R.regression, ctx.R.transform
    if ctx.mode == 'tv':
        raise SkipTV()
    x = ctx.input('x', (d, m), False)
    y = ctx.input('y', (d, m), cplx_y)
    fs = _scalar_funcs(ctx, tdt, fam)
    if variant == 'cm':
        build = lambda: tdt.coordinate_major(x, fs)
        call = lambda: reg.mandy_cm(x, y, fs, threshold=0.0)
    else:
        add_one = variant == 'fm'
        build = lambda: tdt.function_major(x, fs, add_one=add_one)
        call = lambda: reg.mandy_fm(x, y, fs, threshold=0.0, add_one=add_one)
    psi0 = build()
    p = psi0.order - 1
    Psi = D.as_matrix(psi0.full(), psi0.order).reshape(-1, m)       # N x m
    if not ctx.sym:
        xi = call()
        meta_ok(ctx, 'mandy', xi)
        X = np.asarray(xi.full()).reshape(-1, d)
        Pm = np.asarray(Psi)
        sv = np.linalg.svd(Pm, compute_uv=False)
        if sv[-1] / sv[0] > 1e-8:
            ctx.eq('mandy == (y Psi^+)^T', X, (np.asarray(y) @ np.linalg.pinv(Pm)).T, tol=1e-6)
        return
    from symtt import state
    free_policy(ctx, positive_spectrum=True, assume_sorted_spectrum=True)
    psi = build()
    u, s, v = psi.svd(p, ortho_r=False)
    n_calls = len(state.S.stub_log)
    free_policy(ctx, positive_spectrum=True, assume_sorted_spectrum=True)
    with ctx.group('mandy == (y Psi^+)^T'):
        xi = call()
        ctx.check('same SVD call sequence as the global SVD of the transformed tensor', len(state.S.stub_log) == n_calls)
        meta_ok(ctx, 'mandy result', xi)
        ctx.check('dims: coefficient modes then the output mode', xi.row_dims == psi0.row_dims[:p] + [d] and xi.col_dims == [1] * (p + 1))
        # U (N x k), diag(1/s), Vh-part: v is the (k x m) core times the identity core
        U = D.tt_full_open(ctx, u.cores).reshape(-1, s.shape[0])
        V = D.tt_full_open(ctx, v.cores).reshape(s.shape[0], m)
        exp = D.matmul(ctx, D.matmul(ctx, U, _diag(ctx, s, inv=True)), D.matmul(ctx, V, D.transpose(ctx, y)))
        ctx.eq('coefficient train == U diag(1/s) Vh y^T', D.as_matrix(xi.full(), p + 1).reshape(-1, d), exp)
        calls = [c for c in state.S.stub_log if c.kind == 'svd']
        if calls:
            first = calls[0].a
            c0 = psi0.cores[0]
            ctx.eq('first internal SVD is applied to the left unfolding of the first core of the transformed tensor', first, c0.reshape(-1, c0.shape[3]))


# ------------------------------------------------------------------------------ kernel
@scenario('C16', 'mandy_kb', lambda tier: [{'d': d, 'm': m, 'ny': ny, 'mix': mix} for d in (1, 2) for m in (1, 2, 3) for ny in (1, 2)
                                            for mix in ([['id', 'mono2']], [['const', 'id'], ['sin', 'id']], [['const', 'id', 'mono2'], ['sin', 'id']], [['id'], ['const', 'id', 'sin'], ['id', 'mono2']])
                                            if not (m == 3 and ny == 2 and tier == 'quick') and not (len(mix) == 3 and (d == 2 or m == 3))])
@unchanged_inputs('x', 'y')
def mandy_kb(ctx, d, m, ny, mix):
    """kernel-based MANDy: solver input == (Gram matrix, y^T), on both branches of the conditioning test; z reproduces y on the training data by the solve contract"""
    reg, tdt = ctx.R.regression, ctx.R.transform
    if ctx.mode == 'tv':
        raise SkipTV()
    x = ctx.input('x', (d, m), False)
    y = ctx.input('y', (ny, m), False)
    phi = [_funcs(ctx, tdt, d, w) for w in mix]
    P = _dense(ctx, x, phi).reshape(-1, m)
    G = D.matmul(ctx, D.transpose(ctx, P), P)
    if not ctx.sym:
        z = reg.mandy_kb(np.asarray(x), np.asarray(y), phi)
        Gn = np.asarray(G)
        if np.linalg.cond(Gn) < 1e8:
            ctx.eq('kernel-based MANDy: z G == y (fitted values reproduce the data)', np.asarray(z) @ Gn, np.asarray(y), tol=1e-6)
        return

    def body():
        from symtt import state
        free_policy(ctx)
        z = reg.mandy_kb(x, y, phi)
        log = state.S.stub_log
        conds = [c for c in log if c.kind == 'cond']
        sol = [c for c in log if c.kind in ('solve', 'lstsq')]
        with ctx.group('kernel-based MANDy: z G == y (fitted values reproduce the data)'):
            ctx.check('one conditioning test and one linear solve', len(conds) == 1 and len(sol) == 1, detail=repr([c.kind for c in log]))
            ctx.eq('condition number is taken of the Gram matrix Psi^T Psi', conds[0].A, G)
            ctx.eq('%s: matrix == Gram matrix' % sol[0].kind, sol[0].A, G)
            ctx.eq('%s: right-hand side == y^T' % sol[0].kind, sol[0].b, D.transpose(ctx, y))
            ctx.eq('result == transposed solver answer', z, D.transpose(ctx, sol[0].x))
        return sol[0].kind
    res = ctx.explore('mandy_kb', body)
    kinds = sorted(set(r for _, r in res))
    ctx.check('both branches of the conditioning test explored (solve / lstsq)', kinds == ['lstsq', 'solve'], detail=repr(kinds))


# --------------------------------------------------------------------------------- ARR
def _arr_grid(tier):
    out = []
    for (mix, ranks) in (([['id', 'mono2'], ['const', 'id']], [1, 2, 1]), ([['id', 'mono2'], ['const', 'id']], [1, 1, 1]),
                         ([['const', 'id'], ['id', 'sin'], ['const', 'id']], [1, 2, 2, 1]), ([['id', 'mono2', 'const'], ['cos', 'id']], [1, 2, 1])):
        for d in (1, 2):
            for m in (2, 3):
                for ny in (1, 2):
                    for repeats in (1, 2):
                        if repeats == 2 and (len(mix) > 2 or ny > 1 or m > 2):
                            continue
                        if tier == 'quick' and ny == 2 and (m == 3 or len(mix) > 2):
                            continue
                        out.append({'mix': mix, 'ranks': ranks, 'd': d, 'm': m, 'ny': ny, 'repeats': repeats})
    # warm start from a LIST of (different) coefficient trains, one per output row
    for (mix, ranks) in (([['id', 'mono2'], ['const', 'id']], [1, 1, 1]), ([['id', 'mono2'], ['const', 'id']], [1, 2, 1]),
                         ([['const', 'id'], ['id', 'sin'], ['const', 'id']], [1, 1, 2, 1])):
        out.append({'mix': mix, 'ranks': ranks, 'd': 1, 'm': 2, 'ny': 2, 'repeats': 1, 'listguess': True})
    # snapshots stored with an integer dtype (grid indices, counts): the basis evaluations are still real numbers
    out.append({'mix': [['id', 'sin'], ['const', 'cos']], 'ranks': [1, 2, 1], 'd': 2, 'm': 3, 'ny': 1, 'repeats': 1, 'int_x': True})
    out.append({'mix': [['const', 'id'], ['id', 'sin'], ['const', 'id']], 'ranks': [1, 2, 2, 1], 'd': 1, 'm': 2, 'ny': 2, 'repeats': 1, 'int_x': True})
    return out


@scenario('C16', 'arr', _arr_grid)
@unchanged_inputs('x', 'y')
def arr(ctx, mix, ranks, d, m, ny, repeats, listguess=False, int_x=False):
    """ARR: micro_matrix^T vec(core_i) == predictions of the current coefficient train on every snapshot; rhs; schedule; ranks; guess unchanged"""
    reg, tdt = ctx.R.regression, ctx.R.transform
    TT = ctx.R.TT
    if ctx.mode == 'tv':
        raise SkipTV()
    x = ctx.input('x', (d, m), False)
    x_code = x
    if int_x:
        x_code = np.array([[1, -2, 0], [2, 1, -1]], dtype=int)[:d, :m]
        x = ctx.lift(x_code.astype(float))
    y = ctx.input('y', (ny, m), False)
    phi = [_funcs(ctx, tdt, d, w) for w in mix]
    p = len(phi)
    n = [len(f) for f in phi]
    sg = {'rows': n, 'cols': [1] * p, 'ranks': ranks}
    guess = TT(mk_cores(ctx, 'g', sg, False))
    gd = D.tt_full(ctx, mk_cores(ctx, 'g', sg, False))
    T = _dense(ctx, x, phi)                              # (n_1..n_p, m)
    free_policy(ctx)
    calls = []
    g = reg.__dict__
    orig = g['__arr_update_core']

    def wrapped(i, micro_matrix, rhs, solution, rcond, direction):
        calls.append({'i': i, 'mm': micro_matrix.copy(), 'rhs': rhs.copy() if hasattr(rhs, 'copy') else rhs, 'cores': [c.copy() for c in solution.cores],
                      'ranks': list(solution.ranks), 'direction': direction, 'rcond': rcond})
        return orig(i, micro_matrix, rhs, solution, rcond, direction)
    g['__arr_update_core'] = wrapped
    try:
        if listguess:
            glist = [TT(mk_cores(ctx, 'g%d' % k, sg, False)) for k in range(ny)]
            sol = reg.arr(x_code, y, phi, glist, repeats=repeats, rcond=1e-2, progress=False)
        else:
            sol = reg.arr(x_code, y, phi, guess, repeats=repeats, rcond=1e-2, progress=False)
    finally:
        g['__arr_update_core'] = orig
    ctx.check('one coefficient train per output row', isinstance(sol, list) and len(sol) == ny)
    sched = [(c['i'], c['direction']) for c in calls]
    exp = []
    for _ in range(ny):
        for _r in range(repeats):
            exp += [(i, 'forward') for i in range(p - 1)] + [(i, 'backward') for i in range(p - 1, -1, -1)]
    ctx.check('arr: sweep schedule', sched == exp, detail=repr(sched))
    per = len(exp) // ny if ny else 0
    for k, c in enumerate(calls):
        row = k // per if per else 0
        i = c['i']
        cores = c['cores']
        # prediction of the train whose core i is the one stored at call time: contract the dense transformed tensor with the dense coefficient tensor
        Xi = D.tt_full(ctx, [cc if cc.ndim == 4 else cc.reshape(c['ranks'][j], n[j], 1, c['ranks'][j + 1]) for j, cc in enumerate(cores)]).reshape(n)
        pred = ctx.zeros((m,), cplx=False)
        for j in range(m):
            D._set(pred, (j,), D.sum_((D._get(Xi, idx) * D._get(T, idx + (j,)) for idx in itertools.product(*[range(q) for q in n])), ctx))
        ci = cores[i].reshape(-1, 1)
        ctx.eq('arr call %d (output %d, core %d, %s): micro_matrix^T vec(core) == predictions of the current train' % (k, row, i, c['direction']),
               D.matmul(ctx, D.transpose(ctx, c['mm']), ci).reshape(-1), pred)
        ctx.eq('arr call %d: right-hand side == row %d of y' % (k, row), c['rhs'], y[row, :])
        ctx.check('arr call %d: rcond passed through' % k, c['rcond'] == 1e-2)
    for t in sol:
        meta_ok(ctx, 'arr result', t)
        ctx.check('arr: ranks of the guess are kept (never grow)', all(a <= b for a, b in zip(t.ranks, ranks)), detail='%s vs %s' % (t.ranks, ranks))
        ctx.check('arr: dims of the guess', t.row_dims == n)
    ctx.eq('arr: the initial guess is not modified', guess.full(), gd)
    ctx.check('arr: results are new objects', all(t is not guess for t in sol))
    # (a list-valued guess is the undocumented warm-start form: its trains are continued in place -- not part of the "guess unchanged" claim)


@scenario('C16', 'mandy_threshold', lambda tier: [{'variant': v, 'd': d, 'm': m} for v in ('cm', 'fm') for d in (1, 2) for m in (2, 3)])
def mandy_threshold(ctx, variant, d, m):
    """MANDy with a SYMBOLIC relative threshold: on every path the number of singular values kept by the final SVD follows the documented RELATIVE rule
    (s_j / s_0 > threshold), and the result is U_r diag(1/s_r) Vh_r y^T with the leading r triplets"""
    reg, tdt = ctx.R.regression, ctx.R.transform
    if ctx.mode == 'tv':
        raise SkipTV()
    x = ctx.input('x', (d, m), False)
    y = ctx.input('y', (d, m), False)
    fs = _scalar_funcs(ctx, tdt, ['id', 'mono2'])
    label = 'mandy == (y Psi^+)^T'
    if not ctx.sym:
        # concrete: a threshold well below the smallest singular-value ratio must not change the least-squares solution
        build = (lambda: tdt.coordinate_major(x, fs)) if variant == 'cm' else (lambda: tdt.function_major(x, fs, add_one=False))
        psi0 = build()
        Pm = np.asarray(psi0.full()).reshape(-1, m) * 1e-3          # small amplitudes: absolute and relative cuts differ
        xs = np.asarray(x) * (1e-3 if variant == 'cm' else 1e-3)
        sv = np.linalg.svd(np.asarray((tdt.coordinate_major(xs, fs) if variant == 'cm' else tdt.function_major(xs, fs, add_one=False)).full()).reshape(-1, m), compute_uv=False)
        th = float(sv[-1] / sv[0]) / 5
        if th > 1e-12:
            xi = reg.mandy_cm(xs, np.asarray(y), fs, threshold=th) if variant == 'cm' else reg.mandy_fm(xs, np.asarray(y), fs, threshold=th, add_one=False)
            P2 = np.asarray((tdt.coordinate_major(xs, fs) if variant == 'cm' else tdt.function_major(xs, fs, add_one=False)).full()).reshape(-1, m)
            ctx.eq(label, np.asarray(xi.full()).reshape(-1, d), (np.asarray(y) @ np.linalg.pinv(P2)).T, tol=1e-5)
        return
    theta = ctx.scalar('theta', lo=(0,), hi=(1,))
    from .C04 import _kept, _cut_ok

    def body():
        from symtt import state
        free_policy(ctx, positive_spectrum='first', assume_sorted_spectrum=True)
        xi = reg.mandy_cm(x, y, fs, threshold=theta) if variant == 'cm' else reg.mandy_fm(x, y, fs, threshold=theta, add_one=False)
        svds = [c for c in state.S.stub_log if c.kind == 'svd']
        mid = svds[-1]
        r = xi.ranks[-2]
        with ctx.group(label):
            exp_r = _kept(ctx, mid, theta, True, None)
            ctx.check('path ranks=%s: final SVD keeps the documented number of singular values (relative cut)' % (xi.ranks,), r == exp_r, detail='%d vs %d' % (r, exp_r))
            _cut_ok(ctx, 'path ranks=%s final SVD' % (xi.ranks,), mid, r, theta, True, None)
        return r
    res = ctx.explore('mandy threshold', body)
    ctx.check('at least one feasible path', len(res) >= 1)
