"""C17 -- tensor-based DMD equals matrix DMD of the unfolded snapshots."""
import itertools

import numpy as np

from symtt.core import scenario, HarnessError, SkipTV
from symtt import dense as D
from .common import mk_cores, meta_ok, free_policy

META = {
    'explanation': 'tdmd_exact / tdmd_standard on symbolic snapshot trains x, y (last mode = snapshots): under fresh symbolic SVD/eig outputs (I) the reduced matrix '
                   'handed to the eigen-solver equals U^T Y V S^-1 assembled densely from the factors (U, s, Vh) of the global SVD of x (split before the snapshot mode) '
                   'and the dense Y; (I) the returned eigenvalues are the eigen-solver values sorted descending (orderings enumerated as cases), exact modes == Y V S^-1 W '
                   'Lambda^-1, standard modes == U W with the columns in the same order; dims/metadata of the mode train; x and y unchanged (in-place LAPACK modelled). '
                   'Equality with matrix DMD of the unfolding follows because both reduce the same operator with a thin SVD (C05 makes U, s, Vh an SVD of the unfolding). Relative rank cut: with a SYMBOLIC threshold the explorer forks over the kept rank; the kept rank is the number of singular values of the last (global) SVD of x above the cut, the cut is applied to x only, reduced matrix and modes use exactly the kept triplets. Complex-valued y with real x.',
    'bounds': {'quick': 'spatial orders 1-2 (train orders 2-3), mode size 2, 2-3 snapshots, ranks {1,2}, ortho flags on/off, real data, all orderings of <= 3 eigenvalues',
               'thorough': 'spatial order 3, 4 snapshots'},
    'outside': ['the eigenvalues of LAPACK themselves; similarity invariance is linear algebra', 'complex snapshot data (the code transposes without conjugation: documented for real data)',
                'threshold > 0', 'rounding'],
    'assumptions': ['SVD / eig contracts; real spectrum assumed for the ordering cases (ties excluded)'],
    'tv_per_scenario': {'quick': 1000, 'thorough': 1000},
}


def _diag(ctx, s, inv=False):
    k = s.shape[0]
    out = ctx.zeros((k, k), cplx=False)
    for i in range(k):
        v = D._get(s, (i,))
        D._set(out, (i, i), ctx.const_frac(1) / v if inv else v)
    return out


def _grid(tier):
    out = []
    shapes = [{'dims': [2], 'm': 2, 'rx': [1, 2, 1], 'ry': [1, 2, 1]},
              {'dims': [2], 'm': 3, 'rx': [1, 2, 1], 'ry': [1, 1, 1]},
              {'dims': [2, 2], 'm': 2, 'rx': [1, 2, 2, 1], 'ry': [1, 1, 2, 1]},
              {'dims': [2, 2], 'm': 3, 'rx': [1, 2, 2, 1], 'ry': [1, 2, 2, 1]}]
    if tier != 'quick':
        shapes.append({'dims': [2, 2, 2], 'm': 3, 'rx': [1, 2, 2, 2, 1], 'ry': [1, 2, 2, 2, 1]})
    for s in shapes:
        for variant in ('exact', 'standard'):
            for (ol, orr) in ((True, True), (False, False), (True, False)):
                k = min(s['rx'][-2], s['m'])
                nperm = {1: 1, 2: 2, 3: 3}.get(k, 3)
                for perm in range(nperm):
                    if tier == 'quick' and (ol != orr) and perm:
                        continue
                    out.append({'shape': s, 'variant': variant, 'ortho_l': ol, 'ortho_r': orr, 'perm': perm})
    # complex-valued y with real x (U^T Y V S^-1 is linear in Y: no conjugation of y anywhere)
    for s in (shapes[2], shapes[3]):
        for variant in ('exact', 'standard'):
            out.append({'shape': s, 'variant': variant, 'ortho_l': True, 'ortho_r': True, 'perm': 0, 'cplx_y': True})
    # relative rank cut (threshold > 0): symbolic threshold, the explorer forks over the kept rank; the cut applies to x only
    for s in shapes[:4]:
        for variant in ('exact', 'standard'):
            out.append({'shape': s, 'variant': variant, 'ortho_l': True, 'ortho_r': True, 'perm': 0, 'theta': True})
    return out


def _order_policy(ctx, perm_seed, sorted_svd=False):
    from symtt import lapack, state
    from symtt.scalar import Sc
    from .common import _OW

    class P(lapack.FreePolicy):
        real_spectrum = True
        assume_sorted_spectrum = False

        def eig(self, A, B=None, hermitian=False, k=None):
            lam, V = lapack.FreePolicy.eig(self, A, B, hermitian, k)
            n = lam.shape[0]
            perms = list(itertools.permutations(range(n)))
            pi = perms[(perm_seed * 2 + 1) % len(perms)] if n > 1 else (0,)
            for a, b in zip(pi[:-1], pi[1:]):
                state.assume(Sc.of(lam.plain()[a]) > Sc.of(lam.plain()[b]))      # lam[pi[0]] > lam[pi[1]] > ...
            for j in range(n):
                state.assume(Sc.of(lam.plain()[j]).re != 0)
            self.desc = list(pi)
            return lam, V
    if 'tab' not in _OW:
        _OW['tab'] = lapack.calibrate_overwrite()
    return P(model_overwrite=True, overwrite_table=_OW['tab'], positive_spectrum=True, **({'assume_sorted_spectrum': True} if sorted_svd else {}))


@scenario('C17', 'tdmd', _grid)
def tdmd(ctx, shape, variant, ortho_l, ortho_r, perm, theta=False, cplx_y=False):
    """reduced matrix == U^T Y V S^-1; eigenvalues sorted descending; modes; inputs unchanged"""
    TT, mod = ctx.R.TT, ctx.R.tdmd
    if ctx.mode == 'tv':
        raise SkipTV()
    dims, m = shape['dims'], shape['m']
    d = len(dims) + 1
    sx = {'rows': dims + [m], 'cols': [1] * d, 'ranks': shape['rx']}
    sy = {'rows': dims + [m], 'cols': [1] * d, 'ranks': shape['ry']}
    Xd = D.tt_full(ctx, mk_cores(ctx, 'x', sx, False)).reshape(-1, m)
    Yd = D.tt_full(ctx, mk_cores(ctx, 'y', sy, cplx_y)).reshape(-1, m)
    fn0 = mod.tdmd_exact if variant == 'exact' else mod.tdmd_standard
    th = 0
    if theta:
        th = ctx.scalar('theta', lo=0.05, hi=0.6) if not ctx.sym else ctx.scalar('theta', lo=(0,), hi=(1,))
    fn = (lambda x_, y_, **kw: fn0(x_, y_, threshold=th, **kw)) if theta else fn0
    if not ctx.sym:
        x = TT(mk_cores(ctx, 'x', sx, False))
        y = TT(mk_cores(ctx, 'y', sy, cplx_y))
        # a switched-off flag documents "that side is orthonormal already": hand over an admissible representation of the same tensor
        if not ortho_l and d >= 3:
            x = x.ortho_left(end_index=d - 3)
        if not ortho_r:
            x = x.ortho_right(end_index=d - 1)
        if theta:
            # relative cut: hand over x with left-orthonormal spatial cores (NumPy QR, value unchanged).  Then no sweep inside TT.svd truncates before
            # the last core, whose singular values are those of the unfolding -- so "the same relative rank cut" is well defined and the dense oracle
            # below is exact.  (For arbitrary cores the sweeps truncate on local spectra and the comparison would be unsound.)
            from .C05 import _pre_ortho
            x = TT(_pre_ortho([np.array(c) for c in x.cores], d, True, False))
        Xd = D.tt_full(ctx, [c for c in x.cores]).reshape(-1, m)
        ev, modes = fn(x, y, ortho_l=ortho_l, ortho_r=ortho_r)
        Xn, Yn = np.asarray(Xd), np.asarray(Yd)
        U, s, Vh = np.linalg.svd(Xn, full_matrices=False)
        k = int(np.sum(s / s[0] > float(th))) if theta else len(ev)
        if theta:
            ctx.check('tdmd_%s: number of eigenvalues == number of singular values of the unfolded x above the relative cut' % variant, len(ev) == k,
                      detail='%d vs %d' % (len(ev), k))
            k = min(k, len(ev))
        U, s, Vh = U[:, :k], s[:k], Vh[:k, :]
        At = U.T @ Yn @ Vh.T @ np.diag(1 / s)
        from .common import spec_sorted
        ref = spec_sorted(np.linalg.eigvals(At), True)
        if s[-1] / s[0] > 1e-8:
            ctx.eq('tdmd_%s: eigenvalues == those of matrix DMD of the unfolded snapshots' % variant, spec_sorted(ev, True), ref, tol=1e-6)
        ok = (modes.order == len(modes.cores) and all(c.ndim == 4 and tuple(c.shape) == (modes.ranks[i], modes.row_dims[i], modes.col_dims[i], modes.ranks[i + 1])
                                                       for i, c in enumerate(modes.cores)))
        ctx.check('tdmd_%s: mode train: metadata consistent with cores' % variant, bool(ok))
        ctx.eq('tdmd_%s: x unchanged' % variant, np.asarray(x.full()).reshape(-1, m), Xn)
        ctx.eq('tdmd_%s: y unchanged' % variant, np.asarray(y.full()).reshape(-1, m), Yn)
        return

    def body():
        from symtt import state, lapack
        # reference factors: the global SVD of x with the same (deterministic) stub symbols
        ex = state.S.explorer
        state.reset(); state.S.explorer = ex
        lapack.set_policy(_order_policy(ctx, perm, theta))
        xr = TT(mk_cores(ctx, 'x', sx, False))
        u, s, v = xr.svd(d - 1, ortho_l=ortho_l, ortho_r=ortho_r, threshold=th)
        n_svd = len([c for c in state.S.stub_log if c.kind == 'svd'])
        state.reset(); state.S.explorer = ex
        for a in ctx.assumptions:
            ex.assume(a)
        pol = lapack.set_policy(_order_policy(ctx, perm, theta))
        x = TT(mk_cores(ctx, 'x', sx, False))
        y = TT(mk_cores(ctx, 'y', sy, cplx_y))
        ev, modes = fn(x, y, ortho_l=ortho_l, ortho_r=ortho_r)
        log = state.S.stub_log
        eigs = [c for c in log if c.kind == 'eig']
        ctx.check('same SVD sequence as the global SVD of x, then one eigen-solve', len([c for c in log if c.kind == 'svd']) == n_svd and len(eigs) == 1)
        if theta and len(eigs) == 1:
            # the rank kept by the pseudoinverse of x is the number of singular values of the LAST (global) SVD above the relative cut -- stated on the
            # environment's answer, not through TT.svd, so that a cut lost inside TT.svd is seen here too
            from .C04 import _cut_ok
            mid = [c for c in log if c.kind == 'svd'][-1]
            _cut_ok(ctx, 'tdmd_%s(threshold): rank of the reduced matrix %d' % (variant, eigs[0].A.shape[0]), mid, eigs[0].A.shape[0], th, True, None)
        k = s.shape[0]
        U = D.tt_full_open(ctx, u.cores).reshape(-1, k)
        V = D.tt_full_open(ctx, v.cores).reshape(k, m)                  # Vh (times the trailing cores)
        Sinv = _diag(ctx, s, inv=True)
        with ctx.group('tdmd_%s: eigenvalues == those of matrix DMD of the unfolded snapshots' % variant):
            red = D.matmul(ctx, D.matmul(ctx, D.matmul(ctx, D.transpose(ctx, U), Yd), D.transpose(ctx, V)), Sinv)
            ctx.eq('reduced matrix handed to eig == U^T Y V S^-1', eigs[0].A, red)
            lam, W = eigs[0].w, eigs[0].v
            order = pol.desc if k > 1 else [0]
            lam_sorted = ctx.zeros((k,))
            for j, idx in enumerate(order):
                D._set(lam_sorted, (j,), D._get(lam, (idx,)))
            ctx.eq('returned eigenvalues == eigen-solver values in descending order', ev, lam_sorted)
        ok = (modes.order == len(modes.cores) and all(c.ndim == 4 and tuple(c.shape) == (modes.ranks[i], modes.row_dims[i], modes.col_dims[i], modes.ranks[i + 1])
                                                       for i, c in enumerate(modes.cores)))
        ctx.check('tdmd_%s: mode train: metadata consistent with cores' % variant, bool(ok),
                  detail=repr((modes.ranks, modes.row_dims, [tuple(c.shape) for c in modes.cores])))
        Wp = ctx.zeros((k, k))
        for j, idx in enumerate(order):
            for a in range(k):
                D._set(Wp, (a, j), D._get(W, (a, idx)))
        if ok:
            M = D.tt_full(ctx, [c for c in modes.cores]).reshape(-1, k)
            if variant == 'exact':
                Linv = ctx.zeros((k, k))
                for j in range(k):
                    D._set(Linv, (j, j), ctx.const_frac(1) / D._get(lam_sorted, (j,)))
                expm = D.matmul(ctx, D.matmul(ctx, D.matmul(ctx, D.matmul(ctx, Yd, D.transpose(ctx, V)), Sinv), Wp), Linv)
                ctx.eq('exact DMD modes == Y V S^-1 W Lambda^-1', M, expm)
            else:
                ctx.eq('standard (projected) DMD modes == U W', M, D.matmul(ctx, U, Wp))
        ctx.eq('tdmd_%s: x unchanged' % variant, D.tt_full(ctx, [c for c in x.cores]).reshape(-1, m), Xd)
        ctx.eq('tdmd_%s: y unchanged' % variant, D.tt_full(ctx, [c for c in y.cores]).reshape(-1, m), Yd)
        ctx.check('x, y metadata unchanged', x.ranks == shape['rx'] and y.ranks == shape['ry'])
        return k
    res = ctx.explore('tdmd', body, cap=32)
    ctx.check('at least one feasible path', len(res) >= 1)
