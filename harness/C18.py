"""C18 -- tensor-based EDMD (AMUSEt) matches matrix EDMD and treats index sets independently."""
import itertools

import numpy as np

from symtt.core import unchanged_inputs, scenario, HarnessError, SkipTV
from symtt import dense as D
from .common import spec_sorted, mk_cores, meta_ok
from .C15 import _funcs, _dense

META = {
    'explanation': 'amuset_hosvd / amuset_hocur on a symbolic data matrix with fresh symbolic SVD/eig outputs, the internal relative cut 1e-3 explored by forking: '
                   '(I) the HOSVD arguments are the unfoldings residual (x) basis evaluations and, with trivial factorisations, the train equals the transformed data '
                   'tensor; (I) for EVERY index-set pair of a call the matrix handed to the eigen-solver equals V Psi_y^T U S^-1 built from the SVD of the x-columns of the '
                   'last core, the returned eigenvalue array is Re(lambda) ordered by |lambda - 1| over the COMPLEX eigenvalues (orderings enumerated as cases), and the '
                   'k-th eigentensor has the shared left cores and the last core U S^-1 Re(W[:, order]) of the k-th pair -- so batch results coincide with what the same '
                   'formulas give for the pair alone (independence of index sets); amuset_hocur: the same after an arbitrary HOCUR result. Index-set lists in which consecutive pairs share their x set, three pairs, and index sets more than ten times longer than the rank with rows of very different size are part of the grid. NOT solver-decided, sampled by the validation run (scenario scale_invariance): eigenvalues for basis functions scaled by 1e-5 and 1e3 per factor against the dense EDMD.',
    'bounds': {'quick': 'state dimension 1-2, 2-3 snapshots, 1-2 modes with 2 functions, 1-2 index-set pairs, reduced size <= 2, all orderings, complex eigenvalues',
               'thorough': '3 pairs, reduced size 3'},
    'outside': ['equality of the eigenvalues with matrix EDMD: both reduce the same operator (similarity invariance), not re-proved', 'HOCUR pivoting', 'ef_tf / st_tf extras', 'rounding'],
    'assumptions': ['SVD / eig contracts; ties in |lambda - 1| excluded'],
    'tv_per_scenario': {'quick': 1000, 'thorough': 1000},
    'replay_random': 6,
}


def _diag(ctx, s, inv=False):
    k = s.shape[0]
    out = ctx.zeros((k, k), cplx=False)
    for i in range(k):
        v = D._get(s, (i,))
        D._set(out, (i, i), ctx.const_frac(1) / v if inv else v)
    return out


def _grid(tier):
    out = []
    for variant in ('hosvd', 'hocur'):
        for (d, m, mix) in ((1, 3, [['const', 'id']]), (1, 3, [['const', 'id'], ['id', 'mono2']]), (2, 3, [['id', 'sin']]), (2, 4, [['const', 'id'], ['id', 'cos']])):
            for pairs in ([[[0, 1], [1, 2]]], [[[0, 1], [1, 2]], [[0, 2], [1, 0]]]):
                if m == 4:
                    pairs = [[[0, 1, 2], [1, 2, 3]]] + pairs[1:]
                for perm in (0, 1):
                    if tier == 'quick' and variant == 'hocur' and (len(mix) > 1 or d > 1):
                        continue
                    out.append({'variant': variant, 'd': d, 'm': m, 'mix': mix, 'pairs': pairs, 'perm': perm})
    # consecutive pairs that share their x index set (several lag times on one window), and three pairs
    for variant in ('hosvd', 'hocur'):
        out.append({'variant': variant, 'd': 1, 'm': 3, 'mix': [['const', 'id']], 'pairs': [[[0, 1], [1, 2]], [[0, 1], [2, 0]]], 'perm': 0})
        out.append({'variant': variant, 'd': 1, 'm': 4, 'mix': [['const', 'id'], ['id', 'mono2']],
                    'pairs': [[[0, 1, 2], [1, 2, 3]], [[0, 1, 2], [2, 3, 0]], [[0, 1, 2], [3, 0, 1]]], 'perm': 1})
    # optional outputs requested (eigenfunction evaluations): eigenvalues and eigentensors must not depend on it
    for (d, m, mix) in ((1, 3, [['const', 'id']]), (2, 4, [['const', 'id'], ['id', 'cos']])):
        for perm in (0, 1, 2):
            out.append({'variant': 'hosvd', 'd': d, 'm': m, 'mix': mix, 'pairs': [[[0, 1], [1, 2]], [[0, 2], [1, 0]]], 'perm': perm, 'ef': True})
    return out


def _policy(ctx, perm_seed):
    from symtt import lapack, state
    from symtt.scalar import Sc, zterm
    from .common import _OW

    class P(lapack.FreePolicy):
        assume_sorted_spectrum = True
        positive_spectrum = 'first'

        def __init__(self, **kw):
            lapack.FreePolicy.__init__(self, **kw)
            self.orders = []

        def eig(self, A, B=None, hermitian=False, k=None):
            lam, V = lapack.FreePolicy.eig(self, A, B, hermitian, k)        # complex eigenvalues and eigenvectors
            n = lam.shape[0]
            perms = list(itertools.permutations(range(n)))
            pi = perms[(perm_seed + len(self.orders)) % len(perms)]
            d2 = []
            for j in range(n):
                e = Sc.of(lam.plain()[j])
                d2.append((e.re - 1) * (e.re - 1) + zterm(e.im) * zterm(e.im))
            for a, b in zip(pi[:-1], pi[1:]):
                state.assume(d2[a] < d2[b])                                  # |lam[pi0] - 1| < |lam[pi1] - 1| < ...
            self.orders.append(list(pi))
            return lam, V
    return P()


def _call_amuset(ctx, ted, tdt, TT, variant, x, xi, yi, phi, n, m, p, hoc, ef=False):
    if variant == 'hosvd':
        return ted.amuset_hosvd(x, xi if len(xi) > 1 else xi[0], yi if len(yi) > 1 else yi[0], phi, threshold=0, max_rank=np.inf, ef_tf=ef)[:2]
    real_hocur = tdt.hocur

    def fake_hocur(data, basis, ranks, repeats=1, multiplier=10, progress=True, string=None):
        s = {'rows': n + [m], 'cols': [1] * (p + 1), 'ranks': [1] + [2] * p + [1]}
        return TT(mk_cores(ctx, 'hc', s, False))
    tdt.hocur = fake_hocur
    try:
        return ted.amuset_hocur(x, xi if len(xi) > 1 else xi[0], yi if len(yi) > 1 else yi[0], phi, max_rank=1000)
    finally:
        tdt.hocur = real_hocur


def _rotation_data(seed, d, m):
    """concrete replay data with a complex Koopman spectrum: damped rotation (+ decaying coordinate)"""
    rng = np.random.RandomState(seed)
    th = 0.5
    A = 0.95 * np.array([[np.cos(th), -np.sin(th)], [np.sin(th), np.cos(th)]])
    if d == 1:
        x = np.cumprod(np.full(m, 0.9)) * (1 + rng.rand())
        return x.reshape(1, m)
    X = np.zeros((d, m))
    X[:, 0] = 1 + rng.rand(d)
    for k in range(1, m):
        X[:2, k] = A @ X[:2, k - 1]
        if d > 2:
            X[2:, k] = 0.6 * X[2:, k - 1]
    return X


@scenario('C18', 'amuset', _grid)
@unchanged_inputs('x')
def amuset(ctx, variant, d, m, mix, pairs, perm, ef=False):
    """reduced matrices, ordering by |lambda - 1|, eigentensors per index-set pair"""
    TT, ted, tdt = ctx.R.TT, ctx.R.tedmd, ctx.R.transform
    if ctx.mode == 'tv':
        raise SkipTV()
    phi = [_funcs(ctx, tdt, d, w) for w in mix]
    p = len(phi)
    n = [len(f) for f in phi]
    label_ev = 'eigenvalues == Re(lambda) ordered by |lambda - 1| (complex distance), per index-set pair'
    label_et = 'k-th eigentensor == shared left cores with last core U S^-1 Re(W) of the k-th pair (independent of the other pairs)'
    if not ctx.sym:
        mm = m
        if 'x' in ctx.given:
            x = ctx.input('x', (d, m), False)
            use_pairs = pairs
        else:
            mm = 40
            dd = max(d, 2)
            x = _rotation_data(ctx.rng.randint(1 << 30), dd, mm)
            phi = [_funcs(ctx, tdt, dd, w) for w in mix]
            use_pairs = [[list(range(0, mm - 1)), list(range(1, mm))], [list(range(0, mm - 2)), list(range(2, mm))]][:len(pairs)]
        xi = [np.array(a) for a, b in use_pairs]
        yi = [np.array(b) for a, b in use_pairs]
        if variant == 'hosvd':
            ev, et = ted.amuset_hosvd(np.asarray(x), xi if len(xi) > 1 else xi[0], yi if len(yi) > 1 else yi[0], phi, threshold=1e-10, ef_tf=ef)[:2]
        else:
            ev, et = ted.amuset_hocur(np.asarray(x), xi if len(xi) > 1 else xi[0], yi if len(yi) > 1 else yi[0], phi, max_rank=1000)
        evs = ev if isinstance(ev, list) else [ev]
        ets = et if isinstance(et, list) else [et]
        Psi = np.asarray(_dense(ctx, np.asarray(x), phi)).reshape(-1, np.asarray(x).shape[1])
        ok_ev, ok_et = True, True
        for k in range(len(evs)):
            Px, Py = Psi[:, xi[k]], Psi[:, yi[k]]
            K = np.linalg.pinv(Px.T, rcond=1e-3) @ Py.T
            lam = np.linalg.eigvals(K)
            lam = lam[np.abs(lam) > 1e-9]
            lam = lam[np.argsort(np.abs(lam - 1))]
            r = min(len(lam), len(evs[k]))
            if variant == 'hosvd':
                ok_ev &= bool(np.allclose(np.real(lam[:r]), np.asarray(evs[k])[:r], atol=1e-6))
            # independence: the k-th tensor must equal the single-pair call
            if variant == 'hosvd':
                e1, t1 = ted.amuset_hosvd(np.asarray(x), xi[k], yi[k], phi, threshold=1e-10)
            else:
                e1, t1 = ted.amuset_hocur(np.asarray(x), xi[k], yi[k], phi, max_rank=1000)
            ok_ev &= bool(np.allclose(np.asarray(e1), np.asarray(evs[k]), atol=1e-7))
            a, b = np.asarray(t1.full()), np.asarray(ets[k].full())
            ok_et &= bool(a.shape == b.shape and np.allclose(a, b, atol=1e-6))
        ctx.check(label_ev, ok_ev)
        ctx.check(label_et, ok_et)
        return
    x = ctx.input('x', (d, m), False)
    T = _dense(ctx, x, phi)                                   # (n_1..n_p, m)

    def body():
        from symtt import state, lapack
        ex = state.S.explorer
        state.reset(); state.S.explorer = ex
        for a in ctx.assumptions:
            ex.assume(a)
        pol = lapack.set_policy(_policy(ctx, perm))
        xi = [np.array(a) for a, b in pairs]
        yi = [np.array(b) for a, b in pairs]
        hoc = {}
        captured = []
        real_rm = ted._reduced_matrix

        def spy(last_core, xi_, yi_, threshold=1e-3):
            r_ = real_rm(last_core, xi_, yi_, threshold)
            captured.append(r_[0])
            return r_
        ted._reduced_matrix = spy
        try:
            ev, et = _call_amuset(ctx, ted, tdt, TT, variant, x, xi, yi, phi, n, m, p, hoc, ef)
        finally:
            ted._reduced_matrix = real_rm
        evs = ev if isinstance(ev, list) else [ev]
        ets = et if isinstance(et, list) else [et]
        ctx.check('one eigenvalue array and one eigentensor per index-set pair', len(evs) == len(pairs) and len(ets) == len(pairs))
        log = state.S.stub_log
        eigs_ = [c for c in log if c.kind == 'eig']
        with ctx.group(label_ev):
            for k in range(min(len(eigs_), len(captured))):
                ctx.eq('pair %d: the eigen-solver is applied to the reduced matrix of this pair' % k, eigs_[k].A, captured[k])
        eigs = [c for c in log if c.kind == 'eig']
        svds = [c for c in log if c.kind == 'svd']
        npre = len(svds) - len(pairs)
        ctx.check('one SVD and one eigen-solve per pair', len(eigs) == len(pairs) and npre >= 0)
        if len(eigs) != len(pairs) or npre < 0:
            return 0
        # left cores shared by all eigentensors = the orthonormalised train (cores of the first p positions)
        left = None
        for k in range(len(pairs)):
            sv = svds[npre + k]
            r = evs[k].shape[0]
            U, s, Vh = sv.U[:, :r], sv.s[:r], sv.Vh[:r, :]
            last_x = sv.a                                        # (rank x |x_indices|)
            with ctx.group(label_ev):
                ctx.check('pair %d: kept part is a leading part of the spectrum' % k, r <= sv.s.shape[0])
                # the SVD argument is the x-columns of the last core; the y-columns are read from the same core
                lc = ets[k].cores  # placeholder to keep names short
            # reconstruct the last core before modification from the SVD argument positions: use the recorded argument and the eig argument
            with ctx.group(label_ev):
                lam, W = eigs[k].w, eigs[k].v
                order = pol.orders[k] if lam.shape[0] > 1 else [0]
                exp_ev = ctx.zeros((r,), cplx=False)
                for j, idx in enumerate(order):
                    D._set(exp_ev, (j,), D._get(lam, (idx,)).real)
                ctx.eq('pair %d: returned eigenvalues == Re(lambda) in the order of increasing |lambda - 1|' % k, evs[k], exp_ev)
            with ctx.group(label_et):
                Wre = ctx.zeros((r, r), cplx=False)
                for j, idx in enumerate(order):
                    for a in range(r):
                        D._set(Wre, (a, j), D._get(W, (a, idx)).real)
                exp_last = D.matmul(ctx, D.matmul(ctx, U, _diag(ctx, s, inv=True)), Wre)
                meta_ok(ctx, 'pair %d: eigentensor' % k, ets[k])
                ctx.eq('pair %d: last core of the eigentensor == U S^-1 Re(W[:, order]) of THIS pair' % k, ets[k].cores[-1][:, :, 0, 0], exp_last)
                if left is None:
                    left = [c for c in ets[k].cores[:-1]]
                else:
                    for i in range(p):
                        ctx.eq('pair %d: left core %d is the shared orthonormalised core' % (k, i), ets[k].cores[i], left[i])
        return len(pairs)
    res = ctx.explore('amuset', body, cap=64)
    ctx.check('at least one feasible path', len(res) >= 1)


@scenario('C18', 'reduced_matrix', lambda tier: [{'r': r, 'm': m, 'nx': nx} for r in (1, 2) for m in (3, 4) for nx in (2, 3) if nx < m] +
          # many more snapshots than rows (index sets more than ten times longer than the rank), rows of very different size
          [{'r': 2, 'm': 24, 'nx': 22, 'scale': 0.01}, {'r': 1, 'm': 13, 'nx': 12, 'scale': 1.0}, {'r': 2, 'm': 23, 'nx': 21, 'scale': 0.004}])
def reduced_matrix(ctx, r, m, nx, scale=None):
    """_reduced_matrix(last_core, x_idx, y_idx) == V Psi_y^T U S^-1 with the SVD of the x-columns, relative cut 1e-3 explored by forking"""
    ted = ctx.R.tedmd
    if ctx.mode == 'tv':
        raise SkipTV()
    last = ctx.input('L', (r, m, 1, 1), False)
    xi = np.arange(0, nx)
    yi = np.arange(m - nx, m)
    if not ctx.sym:
        if scale is not None and r > 1:
            last = np.array(last)
            last[1:] *= scale                 # singular values of the x-part spread over orders of magnitude (still above the 1e-3 cut)
        M, u, s, v = ted._reduced_matrix(np.asarray(last), xi, yi)
        Lx = np.asarray(last)[:, xi, 0, 0].reshape(r, nx)
        Ly = np.asarray(last)[:, yi, 0, 0].reshape(r, nx)
        svx = np.linalg.svd(Lx, compute_uv=False)
        if not np.any(np.abs(svx / svx[0] - 1e-3) < 1e-5):
            ctx.check('kept singular values are exactly those above the relative cut 1e-3', len(s) == int(np.sum(svx / svx[0] > 1e-3)),
                      detail='%d kept, spectrum %s' % (len(s), (svx / svx[0]).tolist()))
        K = np.linalg.pinv(Lx.T, rcond=1e-3) @ Ly.T          # r x r
        # M is similar to K restricted to the kept subspace: compare eigenvalues
        ctx.eq('reduced matrix has the eigenvalues of pinv(Psi_x^T) Psi_y^T', spec_sorted(np.linalg.eigvals(np.asarray(M)))[-len(s):],
               spec_sorted(np.linalg.eigvals(K))[-len(s):], tol=1e-6)
        return

    def body():
        from symtt import state, lapack
        ex = state.S.explorer
        state.reset(); state.S.explorer = ex
        for a in ctx.assumptions:
            ex.assume(a)
        lapack.set_policy(lapack.FreePolicy(assume_sorted_spectrum=True, positive_spectrum='first'))
        M, u, s, v = ted._reduced_matrix(last, xi, yi)
        svs = [c for c in state.S.stub_log if c.kind == 'svd']
        if not ctx.check('the x-columns of the last core are decomposed by one SVD', len(svs) == 1):
            return 0
        sv = svs[-1]
        k = s.shape[0]
        with ctx.group('reduced matrix has the eigenvalues of pinv(Psi_x^T) Psi_y^T'):
            ctx.eq('SVD argument == x-columns of the last core', sv.a, last[:, xi, 0, 0].reshape(r, nx))
            ctx.eq('kept factors are the leading %d singular triplets' % k, ctx.cat([u, s, v]), ctx.cat([sv.U[:, :k], sv.s[:k], sv.Vh[:k, :]]))
            Ly = last[:, yi, 0, 0].reshape(r, nx)
            exp = D.matmul(ctx, D.matmul(ctx, D.matmul(ctx, sv.Vh[:k, :], D.transpose(ctx, Ly)), sv.U[:, :k]), _diag(ctx, sv.s[:k], inv=True))
            ctx.eq('reduced matrix == V Psi_y^T U S^-1', M, exp)
            import z3
            from symtt.scalar import Sc, zterm
            from fractions import Fraction
            f_ = Fraction(1e-3)
            th = z3.Q(f_.numerator, f_.denominator)      # the literal 1e-3 of the source, as the double it denotes
            svals = [zterm(Sc.of(e).re) for e in sv.s.plain()]
            conds = [svals[j] > th * svals[0] for j in range(k)] + [svals[j] <= th * svals[0] for j in range(k, len(svals))]
            ctx.check('kept singular values are exactly those above the relative cut 1e-3', z3.And(*conds), form='IV')
        return k
    res = ctx.explore('_reduced_matrix', body)
    ctx.check('at least one feasible path', len(res) >= 1)


@scenario('C18', 'hosvd_train', lambda tier: [{'d': d, 'm': m, 'mix': mix} for d in (1, 2) for m in (2, 3) for mix in ([['const', 'id']], [['id', 'sin'], ['const', 'id']])])
def hosvd_train(ctx, d, m, mix):
    """the train built by amuset_hosvd (threshold 0) equals the transformed data tensor; its SVD arguments are residual (x) basis evaluations"""
    TT, ted, tdt = ctx.R.TT, ctx.R.tedmd, ctx.R.transform
    if ctx.mode != 'sym':
        if ctx.mode == 'tv':
            raise SkipTV()
        return
    from symtt import state, lapack
    x = ctx.input('x', (d, m), False)
    phi = [_funcs(ctx, tdt, d, w) for w in mix]
    T = _dense(ctx, x, phi)
    p = len(phi)
    captured = {}
    real_rm = ted._reduced_matrix

    def spy(last_core, xi, yi, threshold=1e-3):
        captured['last'] = last_core.copy()
        return real_rm(last_core, xi, yi, threshold)
    ted._reduced_matrix = spy
    try:
        state.reset()
        lapack.set_policy(lapack.TrivPolicy())
        ex_needed = False
        with ctx.determined():
            try:
                ev, et = ted.amuset_hosvd(x, np.array([0]), np.array([1]), phi, threshold=0, max_rank=np.inf)
            except Exception as e:      # the tail (eig of a 1x1 etc.) is not the subject here
                captured.setdefault('err', repr(e))
    finally:
        ted._reduced_matrix = real_rm
    if 'last' not in captured:
        ctx.fail('amuset_hosvd did not reach the reduced-matrix stage', captured.get('err'))
        return
    fac = [c for c in state.S.stub_log if c.kind == 'svd'][:p]
    ctx.check('one SVD per basis mode, issued from truncated_svd', len(fac) == p and all('truncated_svd' in c.callers for c in fac))
    # with trivial factorisations the cores multiply to the transformed tensor: left cores are the U's, last core the final residual
    cores = []
    res = ctx.lift(np.ones((1, m)))
    for i in range(p):
        u = fac[i].U
        ri = res.shape[0]
        ni = len(phi[i])
        cores.append(u.reshape(ri, ni, 1, u.shape[1]))
        res = D.matmul(ctx, ctx.lift(np.diag(np.ones(fac[i].s.shape[0]))), fac[i].Vh) if False else D.matmul(ctx, _diag(ctx, fac[i].s), fac[i].Vh)
    cores.append(captured['last'])
    ctx.eq('HOSVD train (trivial factorisations) == transformed data tensor', D.tt_full(ctx, cores).reshape(T.shape), T)


# ------------------------------------------------------------ scale of the basis functions (concrete only)
@scenario('C18', 'scale_invariance', lambda tier: [{'c': 1e-5, 'variant': 'hosvd'}, {'c': 1e3, 'variant': 'hosvd'}, {'c': 1e3, 'variant': 'hocur'}])     # HOCUR's pivot search has absolute tolerances of its own: tiny scales are outside
def scale_invariance(ctx, c, variant):
    """NOT a solver verdict (floating-point scale, outside exact arithmetic): the eigenvalues do not depend on a common factor of the basis functions --
    every cut in the method is relative.  Product basis {1, x_i} * c in three modes (features of size c^3), linear dynamics, compared with the dense
    EDMD eigenvalues (same relative cut 1e-3)"""
    ted, tdt = ctx.R.tedmd, ctx.R.transform
    if ctx.mode == 'tv':
        raise SkipTV()
    if ctx.sym:
        ctx.held('scale invariance is exercised by the concrete validation run of this scenario (sampling, stated in the evidence)')
        return
    rng = np.random.RandomState(17)
    d, m = 3, 40
    X = rng.rand(d, m) * 2 - 1
    Y = np.diag([0.9, 0.7, 0.5]) @ X
    data = np.hstack([X, Y])
    xi, yi = np.arange(0, m), np.arange(m, 2 * m)

    class F(object):
        def __init__(self, idx, k):
            self.idx, self.k = idx, k

        def __call__(self, t):
            return c * (1.0 if self.k == 0 else t[self.idx])
    phi = [[F(i, 0), F(i, 1)] for i in range(d)]
    if variant == 'hosvd':
        ev, _ = ted.amuset_hosvd(data, xi, yi, phi, threshold=0)
    else:
        np.random.seed(5)
        ev, _ = ted.amuset_hocur(data, xi, yi, phi, max_rank=1000, multiplier=2)
    Psi = np.array([[np.prod([float(phi[i][k](data[:, j])) for i, k in enumerate(idx)]) for j in range(2 * m)] for idx in itertools.product((0, 1), repeat=d)])
    K = np.linalg.pinv(Psi[:, xi].T, rcond=1e-3) @ Psi[:, yi].T
    lam = np.linalg.eigvals(K)
    lam = lam[np.abs(lam) > 1e-8]
    ref = np.real(lam[np.argsort(np.abs(lam - 1))])
    ev = np.real(np.asarray(ev))
    ctx.check('number of eigenvalues == number of non-zero eigenvalues of the matrix EDMD', len(ev) == len(ref), detail='%d vs %d' % (len(ev), len(ref)))
    k = min(len(ev), len(ref))
    ctx.eq('eigenvalues == those of the matrix EDMD for basis functions scaled by %g' % c, np.sort(ev[:k]), np.sort(ref[:k]), tol=1e-6)
