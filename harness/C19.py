"""C19 -- generator EDMD: product-rule evaluation and reduced matrix."""
import itertools

import numpy as np

from symtt.core import unchanged_inputs, scenario, HarnessError, SkipTV
from symtt import dense as D
from .common import meta_ok, free_policy
from .C15 import _funcs

META = {
    'explanation': 'generator_on_product / generator_on_product_reversible at a SYMBOLIC point, drift and diffusion (square and non-square): equal to b.grad f + 1/2 (sigma sigma^T) : '
                   'Hess f resp. grad f . sigma[:, i] of the PRODUCT f of the selected basis functions, where the derivatives of f are obtained by the structural differentiator '
                   '(C14) applied to the product term. _reduced_matrix_tgedmd with free symbolic cores, singular values and right factors: equal, entry-wise, to the dense '
                   'V^T (L Psi)^T U S^-1 (non-reversible, with and without reweighting) resp. -1/2 sum_l w_l (dPsi_l U S^-1)^T a_l (dPsi_l U S^-1) (reversible) assembled by index '
                   'loops from the differentiated product terms -- every position class of the contraction chain (2 and 3 modes). amuset_hosvd end to end: the HOSVD '
                   'arguments, the reweighting of the last core, the eigen-solver argument is that reduced matrix, eigenvalues sorted descending and truncated to num_eigvals, '
                   'all three return options. Concrete replays of amuset compare the returned eigenvalues with those of the dense projected generator matrix built from finite-difference derivatives of the product functions. Products of four and five factors; history: a second drift / diffusion evaluated with the same basis-function objects at the same point returns what fresh objects return. An explicit all-zero drift array is still the non-reversible estimator.',
    'bounds': {'quick': 'state dimension 1-2, diffusion shapes d x d, d x (d+1), d x (d-1) for the product rule; '
                        '2-3 modes of 2 functions (monomials, sin, cos, identity), 1-2 snapshots, ranks {1,2}', 'thorough': 'dimension 3, 3 snapshots'},
    'outside': ['equality of the eigenvalues with dense gEDMD (both reduce the same operator)', 'rounding', 'threshold > 0 in the HOSVD'],
    'assumptions': ['sin/cos uninterpreted with sin\'=cos, cos\'=-sin'],
    'tv_per_scenario': {'quick': 1000, 'thorough': 1000},
}

MIX2 = [[['id', 'mono2'], ['const', 'id']], [['sin', 'id'], ['id', 'cos']]]
MIX3 = [[['id', 'mono2'], ['const', 'id'], ['id', 'mono3']]]
MIX4 = [['id', 'mono2'], ['const', 'id'], ['id', 'mono3'], ['const', 'mono2']]


def _sym_point(ctx, d, name='t'):
    from symtt.array import asobj
    ts = [ctx.scalar('%s%d' % (name, i)) for i in range(d)]
    t = asobj(ts)
    t.kind = 'f'
    return ts, t


def _dterm(val, sym):
    from .C14 import diff_term
    from symtt.scalar import Sc
    import z3
    v = Sc.of(val)
    if v.is_concrete:
        return Sc(0)
    return Sc(z3.simplify(diff_term(v.re, sym)))


def _product_value(phi, s, t):
    from symtt.scalar import Sc
    v = Sc(1)
    for k, i in enumerate(s):
        v = v * Sc.of(phi[k][i](t))
    return v


def _gen_grid(tier):
    out = []
    for d in (1, 2):
        for d2 in sorted(set([d, d + 1, max(1, d - 1)])):
            for mix in MIX2 + (MIX3 if tier != 'quick' or d == 1 else []):
                out.append({'d': d, 'd2': d2, 'mix': mix})
    # products of four and five factors (mixed second-order terms between non-adjacent factors, with non-constant factors in between)
    MIX5 = MIX4 + [['mono2', 'id']]
    out.append({'d': 1, 'd2': 1, 'mix': MIX4})
    out.append({'d': 2, 'd2': 3, 'mix': MIX4})
    out.append({'d': 1, 'd2': 2, 'mix': MIX5})
    if tier != 'quick':
        out.append({'d': 2, 'd2': 2, 'mix': MIX5})
    return out


@scenario('C19', 'generator_on_product', _gen_grid)
@unchanged_inputs('b', 'sigma')
def generator_on_product(ctx, d, d2, mix):
    """L(prod f_k) and its reversible gradient form, for every index tuple"""
    tg, tdt = ctx.R.tgedmd, ctx.R.transform
    if ctx.mode == 'tv':
        raise SkipTV()
    phi = [_funcs(ctx, tdt, d, w) for w in mix]
    n = [len(f) for f in phi]
    b = ctx.input('b', (d,), False)
    sig = ctx.input('sigma', (d, d2), False)
    if not ctx.sym:
        t = np.array([ctx.scalar('t%d' % i) for i in range(d)], dtype=float)
        a = np.asarray(sig) @ np.asarray(sig).T
        h = 1e-4

        def f(pt, s):
            v = 1.0
            for k, i in enumerate(s):
                v *= float(phi[k][i](pt))
            return v
        for s in itertools.product(*[range(k) for k in n]):
            g = np.zeros(d)
            H = np.zeros((d, d))
            for i in range(d):
                e = np.zeros(d); e[i] = h
                g[i] = (f(t + e, s) - f(t - e, s)) / (2 * h)
                for j in range(d):
                    e2 = np.zeros(d); e2[j] = h
                    H[i, j] = (f(t + e + e2, s) - f(t + e - e2, s) - f(t - e + e2, s) + f(t - e - e2, s)) / (4 * h * h)
            ctx.eq('generator_on_product%s == b.grad f + 1/2 (sigma sigma^T):Hess f' % (list(s),), tg.generator_on_product(phi, s, t, np.asarray(b), np.asarray(sig)),
                   float(np.asarray(b) @ g + 0.5 * np.sum(a * H)), tol=1e-5)
            for i in range(d2):
                ctx.eq('generator_on_product_reversible%s, column %d == grad f . sigma[:, %d]' % (list(s), i, i),
                       tg.generator_on_product_reversible(phi, s, i, t, np.asarray(sig)), float(g @ np.asarray(sig)[:, i]), tol=1e-5)
        return
    from symtt.scalar import Sc
    from .C14 import _parity_lemmas
    ts, t = _sym_point(ctx, d)
    syms = [x.re for x in ts]
    for s in itertools.product(*[range(k) for k in n]):
        val = _product_value(phi, s, t)
        grad = [_dterm(val, syms[i]) for i in range(d)]
        exp = Sc(0)
        for i in range(d):
            exp = exp + D._get(b, (i,)) * grad[i]
        for i in range(d):
            for j in range(d):
                aij = D.sum_((D._get(sig, (i, k)) * D._get(sig, (j, k)) for k in range(d2)), ctx)
                exp = exp + ctx.const_frac(1, 2) * aij * _dterm(grad[i], syms[j])
        got = tg.generator_on_product(phi, s, t, b, sig)
        ctx.eq('generator_on_product%s == b.grad f + 1/2 (sigma sigma^T):Hess f' % (list(s),), got, exp, extra_assumptions=_parity_lemmas(got, exp))
        for i in range(d2):
            e2 = D.sum_((grad[k] * D._get(sig, (k, i)) for k in range(d)), ctx)
            g2 = tg.generator_on_product_reversible(phi, s, i, t, sig)
            ctx.eq('generator_on_product_reversible%s, column %d == grad f . sigma[:, %d]' % (list(s), i, i), g2, e2, extra_assumptions=_parity_lemmas(g2, e2))


def _rm_grid(tier):
    out = []
    for rev in (False, True):
        for d in (1, 2):
            for mix in MIX2[:1] + MIX3 + ([MIX2[1], MIX4] if tier != 'quick' else []):
                for m in (1, 2) if tier == 'quick' or mix == MIX2[1] else (1, 2, 3):
                    for rw in (False, True):
                        if rev and rw and m == 1:
                            continue
                        if tier == 'quick' and len(mix) == 3 and (d == 2 or m == 2):
                            continue
                        for d2 in sorted(set([d, d + 1, max(1, d - 1)])):
                            if mix == MIX2[1] and not rev and d == 2 and d2 == 3:
                                continue        # trigonometric basis, non-square sigma, non-reversible: 300 s at one snapshot, not finished at two
                            out.append({'rev': rev, 'd': d, 'd2': d2, 'mix': mix, 'm': m, 'reweight': rw})
    # pure diffusion: an explicit drift array that is identically zero is still the NON-reversible estimator
    for rw in (False, True):
        out.append({'rev': False, 'd': 2, 'd2': 2, 'mix': MIX2[0], 'm': 2, 'reweight': rw, 'zero_drift': True})
        out.append({'rev': False, 'd': 1, 'd2': 2, 'mix': MIX3[0], 'm': 1, 'reweight': rw, 'zero_drift': True})
    return out


def _dense_L(ctx, phi, n, x, b, sig, l, d, d2, rev):
    """for snapshot l: non-reversible: vector LPsi_s ; reversible: matrix dPsi[i, s] -- from the differentiated product terms evaluated at the snapshot"""
    from symtt.scalar import Sc
    import z3
    ts, t = _sym_point(ctx, d, name='pt')
    syms = [q.re for q in ts]
    sub = [(syms[i], (Sc.of(D._get(x, (i, l))).re if not Sc.of(D._get(x, (i, l))).is_concrete else z3.RealVal(0))) for i in range(d)]

    def at_snapshot(v):
        v = Sc.of(v)
        if v.is_concrete:
            return v
        from symtt.scalar import zterm
        pairs = [(syms[i], zterm(Sc.of(D._get(x, (i, l))).re)) for i in range(d)]
        return Sc(z3.substitute(v.re, *pairs))
    res = {}
    for s in itertools.product(*[range(k) for k in n]):
        val = _product_value(phi, s, t)
        grad = [_dterm(val, syms[i]) for i in range(d)]
        if rev:
            res[s] = [at_snapshot(g) for g in grad]
        else:
            e = Sc(0)
            for i in range(d):
                e = e + D._get(b, (i, l)) * at_snapshot(grad[i])
            for i in range(d):
                for j in range(d):
                    aij = D.sum_((D._get(sig, (i, k, l)) * D._get(sig, (j, k, l)) for k in range(d2)), ctx)
                    e = e + ctx.const_frac(1, 2) * aij * at_snapshot(_dterm(grad[i], syms[j]))
            res[s] = e
    return res


@scenario('C19', 'reduced_matrix', _rm_grid)
@unchanged_inputs('x', 'b', 'sigma')
def reduced_matrix(ctx, rev, d, d2, mix, m, reweight, zero_drift=False):
    """_reduced_matrix_tgedmd with free cores / singular values / right factors == dense projected generator matrix"""
    tg, tdt = ctx.R.tgedmd, ctx.R.transform
    if ctx.mode == 'tv':
        raise SkipTV()
    phi = [_funcs(ctx, tdt, d, w) for w in mix]
    n = [len(f) for f in phi]
    p = len(n)
    ranks = [1] + [2] * (p - 1) + [2, 1]
    x = ctx.input('x', (d, m), False)
    b = ctx.input('b', (d, m), False)
    if zero_drift:
        b = ctx.lift(np.zeros((d, m))) if ctx.mode != 'conc' else np.zeros((d, m))
    sig = ctx.input('sigma', (d, d2, m), False)
    u = [ctx.input('u%d' % k, (ranks[k], n[k], ranks[k + 1]), False) for k in range(p)]
    r = ranks[p]
    sinv_diag = ctx.input('sinv', (r,), False)
    V = ctx.input('V', (m, r), False)
    w = [4.0, 9.0, 16.0][:m] if reweight else None
    label = 'reduced matrix == dense projected generator matrix (%s%s)' % ('reversible' if rev else 'non-reversible', ', reweighted' if reweight else '')
    if ctx.mode == 'conc':
        sinv = np.diag(np.asarray(sinv_diag))
        M = tg._reduced_matrix_tgedmd([np.asarray(c) for c in u], sinv, np.asarray(V), ranks, np.asarray(x), phi, np.asarray(sig),
                                      b=None if rev else np.asarray(b), reweight=None if w is None else np.array(w))
        # dense oracle with finite differences of the product functions
        U = np.asarray(D.tt_full_open(ctx, [c.reshape(c.shape[0], c.shape[1], 1, c.shape[2]) for c in u])).reshape(-1, r)
        ww = np.ones(m) if w is None else np.array(w)
        h = 1e-4
        Mexp = np.zeros((r, r), dtype=complex)
        for l in range(m):
            pt = np.asarray(x)[:, l]
            rows = []
            for s in itertools.product(*[range(k) for k in n]):
                def f(q):
                    v = 1.0
                    for k, i in enumerate(s):
                        v *= float(phi[k][i](q))
                    return v
                g = np.zeros(d); H = np.zeros((d, d))
                for i in range(d):
                    e = np.zeros(d); e[i] = h
                    g[i] = (f(pt + e) - f(pt - e)) / (2 * h)
                    for j in range(d):
                        e2 = np.zeros(d); e2[j] = h
                        H[i, j] = (f(pt + e + e2) - f(pt + e - e2) - f(pt - e + e2) + f(pt - e - e2)) / (4 * h * h)
                a = np.asarray(sig)[:, :, l] @ np.asarray(sig)[:, :, l].T
                rows.append((g, float(np.asarray(b)[:, l] @ g + 0.5 * np.sum(a * H))))
            if rev:
                G = np.array([gr for gr, _ in rows]).T @ U @ sinv          # d x r
                a = np.asarray(sig)[:, :, l] @ np.asarray(sig)[:, :, l].T
                Mexp += -0.5 * ww[l] * G.T @ a @ G
            else:
                Lp = np.array([lv for _, lv in rows]) @ U @ sinv
                Mexp += np.sqrt(ww[l]) * np.outer(np.asarray(V)[l, :], Lp)
        ctx.eq(label, M, Mexp, tol=1e-4)
        return
    from symtt.scalar import Sc
    sinv = ctx.zeros((r, r), cplx=False)
    for i in range(r):
        D._set(sinv, (i, i), D._get(sinv_diag, (i,)))
    M = tg._reduced_matrix_tgedmd([c.copy() for c in u], sinv, V, ranks, x, phi, sig, b=None if rev else b, reweight=None if w is None else ctx.lift(np.array(w)))
    U = D.tt_full_open(ctx, [c.reshape(c.shape[0], c.shape[1], 1, c.shape[2]) for c in u]).reshape(-1, r)
    idxs = list(itertools.product(*[range(k) for k in n]))
    Mexp = ctx.zeros((r, r), cplx=False)
    for l in range(m):
        res = _dense_L(ctx, phi, n, x, b, sig, l, d, d2, rev)
        wl = ctx.const_frac(1) if w is None else ctx.const_frac(int(w[l]))
        sq = ctx.const_frac(1) if w is None else ctx.const_frac(int(round(w[l] ** 0.5)))
        if rev:
            G = ctx.zeros((d, r), cplx=False)              # dPsi_l U S^-1
            for i in range(d):
                for c in range(r):
                    D._set(G, (i, c), D.sum_((res[s][i] * D._get(U, (k, c)) for k, s in enumerate(idxs)), ctx) * D._get(sinv_diag, (c,)))
            a = ctx.zeros((d, d), cplx=False)
            for i in range(d):
                for j in range(d):
                    D._set(a, (i, j), D.sum_((D._get(sig, (i, k, l)) * D._get(sig, (j, k, l)) for k in range(d2)), ctx))
            T = D.matmul(ctx, D.transpose(ctx, G), D.matmul(ctx, a, G))
            Mexp = D.add(ctx, Mexp, D.scale(ctx, ctx.const_frac(-1, 2) * wl, T))
        else:
            Lp = [D.sum_((res[s] * D._get(U, (k, c)) for k, s in enumerate(idxs)), ctx) * D._get(sinv_diag, (c,)) for c in range(r)]
            for a_ in range(r):
                for c in range(r):
                    D._set(Mexp, (a_, c), D._get(Mexp, (a_, c)) + sq * D._get(V, (l, a_)) * Lp[c])
    from .C14 import _parity_lemmas
    ax = []
    if ctx.sym:
        from symtt import state
        ax = list(state.S.axioms)
    ctx.eq(label, M, Mexp, extra_assumptions=ax + _parity_lemmas(M, Mexp))


@scenario('C19', 'amuset', lambda tier: [{'rev': rev, 'opt': opt, 'reweight': rw, 'num': num} for rev in (False, True) for opt in ('eigenfunctionevals', 'eigentensors', 'eigenvectors')
                                          for rw in (False, True) for num in (None, 1) if not (rw and opt != 'eigenfunctionevals')])
@unchanged_inputs('x', 'b', 'sigma')
def amuset(ctx, rev, opt, reweight, num):
    """amuset_hosvd end to end: HOSVD arguments and reweighting, eigen-solver argument == reduced matrix, descending order, num_eigvals, return options"""
    tg, tdt = ctx.R.tgedmd, ctx.R.transform
    if ctx.mode == 'tv':
        raise SkipTV()
    d, m = 1, 2
    mix = MIX2[0]
    phi = [_funcs(ctx, tdt, d, w) for w in mix]
    n = [len(f) for f in phi]
    p = len(n)
    x = ctx.input('x', (d, m), False)
    b = ctx.input('b', (d, m), False)
    sig = ctx.input('sigma', (d, d, m), False)
    w = np.array([4.0, 9.0]) if reweight else None
    if not ctx.sym:
        ev, out, ranks = tg.amuset_hosvd(np.asarray(x), phi, np.asarray(sig), b=None if rev else np.asarray(b), reweight=w, num_eigvals=np.inf if num is None else num,
                                        threshold=1e-10, return_option=opt)
        ctx.check('eigenvalues sorted descending', bool(np.all(np.diff(np.real(ev)) <= 1e-12)))
        if num is not None:
            ctx.check('at most num_eigvals eigenvalues', len(ev) <= num)
        if ctx.mode == 'conc':
            # the property's own sentence: eigenvalues == those of the dense projected generator built from the transformed data matrix and its
            # generator image (finite-difference derivatives of the product functions), same singular-value cut
            xn, bn, sn = np.asarray(x), np.asarray(b), np.asarray(sig)
            ww = np.ones(m) if w is None else np.asarray(w, dtype=float)
            idxs = list(itertools.product(*[range(k) for k in n]))

            def fprod(sidx, q):
                v = 1.0
                for k, i in enumerate(sidx):
                    v *= float(phi[k][i](q))
                return v
            Psi = np.array([[fprod(sidx, xn[:, l]) for l in range(m)] for sidx in idxs])
            U_, S_, Vt_ = np.linalg.svd(Psi * np.sqrt(ww)[None, :], full_matrices=False)
            r_ = int(np.sum(S_ / S_[0] > 1e-10))
            U_, S_, Vt_ = U_[:, :r_], S_[:r_], Vt_[:r_, :]
            hh = 1e-4
            Mexp = np.zeros((r_, r_))
            for l in range(m):
                pt = xn[:, l]
                G = np.zeros((d, len(idxs)))
                Lp = np.zeros(len(idxs))
                a_ = sn[:, :, l] @ sn[:, :, l].T
                for si, sidx in enumerate(idxs):
                    f_ = lambda q: fprod(sidx, q)
                    H_ = np.zeros((d, d))
                    for i in range(d):
                        e = np.zeros(d); e[i] = hh
                        G[i, si] = (f_(pt + e) - f_(pt - e)) / (2 * hh)
                        for j in range(d):
                            e2 = np.zeros(d); e2[j] = hh
                            H_[i, j] = (f_(pt + e + e2) - f_(pt + e - e2) - f_(pt - e + e2) + f_(pt - e - e2)) / (4 * hh * hh)
                    Lp[si] = float(bn[:, l] @ G[:, si] + 0.5 * np.sum(a_ * H_))
                if rev:
                    GG = G @ U_ @ np.diag(1 / S_)
                    Mexp += -0.5 * ww[l] * GG.T @ a_ @ GG
                else:
                    Mexp += np.sqrt(ww[l]) * np.outer(Vt_[:, l], Lp @ U_ @ np.diag(1 / S_))
            ref = np.sort(np.real(np.linalg.eigvals(Mexp)))[::-1]
            k_ = min(len(ref), len(ev))
            if S_[-1] / S_[0] > 1e-6 and k_ > 0:
                ctx.eq('eigenvalues == those of the dense projected generator matrix', np.sort(np.real(np.asarray(ev)))[::-1][:k_], ref[:k_], tol=1e-4)
        return

    def body():
        from symtt import state, lapack
        from symtt.scalar import Sc
        ex = state.S.explorer
        state.reset(); state.S.explorer = ex
        for a in ctx.assumptions:
            ex.assume(a)

        class P(lapack.FreePolicy):
            real_spectrum = True
            assume_sorted_spectrum = False

            def eig(self, A, B=None, hermitian=False, k=None):
                lam, V_ = lapack.FreePolicy.eig(self, A, B, hermitian, k)
                nn = lam.shape[0]
                for j in range(nn - 1):
                    state.assume(Sc.of(lam.plain()[j]) < Sc.of(lam.plain()[j + 1]))        # ascending: the code must reverse it
                return lam, V_
        lapack.set_policy(P(positive_spectrum=True))
        captured = []
        real_rm = tg._reduced_matrix_tgedmd

        def spy(*a, **k):
            M_ = real_rm(*a, **k)
            captured.append({'M': M_, 'u': a[0], 's_inv': a[1], 'V': a[2], 'ranks': a[3], 'kw': k})
            return M_
        tg._reduced_matrix_tgedmd = spy
        try:
            ev, out, ranks = tg.amuset_hosvd(x, phi, sig, b=None if rev else b, reweight=None if w is None else ctx.lift(w), num_eigvals=np.inf if num is None else num,
                                            threshold=0, return_option=opt)
        finally:
            tg._reduced_matrix_tgedmd = real_rm
        log = state.S.stub_log
        svds = [c for c in log if c.kind == 'svd']
        eigs = [c for c in log if c.kind == 'eig']
        ctx.check('one SVD per mode and one eigen-solve', len(svds) == p and len(eigs) == 1 and len(captured) == 1)
        cap = captured[0]
        ctx.eq('eigen-solver argument == reduced matrix', eigs[0].A, cap['M'])
        ctx.check('reduced matrix built for the reversible/non-reversible case as requested', (cap['kw'].get('b') is None) == rev)
        # HOSVD arguments: residual (x) basis evaluations (reweighted in the last mode)
        res = ctx.lift(np.ones((1, m)))
        for i in range(p):
            ri = res.shape[0]
            arg = ctx.zeros((ri * n[i], m), cplx=False)
            for j in range(m):
                vals = [phi[i][k](x[:, j]) for k in range(n[i])]
                for a_ in range(ri):
                    for k in range(n[i]):
                        v = D._get(res, (a_, j)) * vals[k]
                        if i == p - 1 and w is not None:
                            v = v * ctx.const_frac(int(round(w[j] ** 0.5)))
                        D._set(arg, (a_ * n[i] + k, j), v)
            ctx.eq('HOSVD mode %d: SVD argument == residual (x) basis evaluations%s' % (i, ' times sqrt(w)' if (i == p - 1 and w is not None) else ''), svds[i].a, arg,
                   extra_assumptions=list(state.S.axioms))
            kk = svds[i].s.shape[0]
            sv = ctx.zeros((kk, kk), cplx=False)
            for q in range(kk):
                D._set(sv, (q, q), D._get(svds[i].s, (q,)))
            res = D.matmul(ctx, sv, svds[i].Vh)
            ctx.eq('HOSVD mode %d: core handed to the reduced matrix == reshape(U)' % i, cap['u'][i], svds[i].U.reshape(ri, n[i], kk))
        lam, W = eigs[0].w, eigs[0].v
        k = lam.shape[0]
        order = list(range(k - 1, -1, -1))
        keep = k if num is None else min(k, num)
        exp_ev = ctx.zeros((keep,))
        for j in range(keep):
            D._set(exp_ev, (j,), D._get(lam, (order[j],)))
        ctx.eq('eigenvalues == eigen-solver values sorted descending, truncated to num_eigvals', ev, exp_ev)
        Wk = ctx.zeros((k, keep))
        for j in range(keep):
            for a_ in range(k):
                D._set(Wk, (a_, j), D._get(W, (a_, order[j])))
        if opt == 'eigenfunctionevals':
            ctx.eq('eigenfunction evaluations == W^T Vh of the last HOSVD step', out, D.matmul(ctx, D.transpose(ctx, Wk), svds[-1].Vh))
        elif opt == 'eigentensors':
            ctx.check('one core list per eigenvalue', len(out) == keep)
            for j in range(keep):
                lastc = D.tensordot_dense(ctx, cap['u'][-1], [2], Wk[:, j:j + 1], [0])
                ctx.eq('eigentensor %d: last core == U_p contracted with eigenvector %d' % (j, j), out[j][-1], lastc)
        else:
            ctx.eq('eigenvectors returned in the sorted order', out, Wk)
        ctx.check('ranks returned', list(ranks) == [1] + [c.s.shape[0] for c in svds] + [1])
        return keep
    res = ctx.explore('tgedmd.amuset_hosvd', body, cap=64)
    ctx.check('at least one feasible path', len(res) >= 1)


# ------------------------------------------------------------ no memory between evaluations
@scenario('C19', 'history', lambda tier: [{'d': 1, 'd2': 2, 'mix': MIX3[0]}, {'d': 2, 'd2': 2, 'mix': MIX2[0]}, {'d': 2, 'd2': 1, 'mix': MIX2[1]}])
def history(ctx, d, d2, mix):
    """generator_on_product / generator_on_product_reversible evaluated for one drift and diffusion, then with the SAME basis-function objects at the same
    point for another drift and diffusion (two models on the same data), return what fresh basis-function objects return"""
    tg, tdt = ctx.R.tgedmd, ctx.R.transform
    if ctx.mode == 'tv':
        raise SkipTV()
    phi = [_funcs(ctx, tdt, d, w) for w in mix]
    phi2 = [_funcs(ctx, tdt, d, w) for w in mix]            # fresh objects: the reference
    n = [len(f) for f in phi]
    if ctx.sym:
        ts, t = _sym_point(ctx, d)
        t2 = _sym_point(ctx, d)[1]
    else:
        t = np.array([ctx.scalar('t%d' % i) for i in range(d)], dtype=float)
        t2 = t.copy()
    b1, s1 = ctx.input('b', (d,), False), ctx.input('sigma', (d, d2), False)
    b2, s2 = ctx.input('b2', (d,), False), ctx.input('sigma2', (d, d2), False)
    idx = list(itertools.product(*[range(k) for k in n]))
    for s in idx:
        tg.generator_on_product(phi, s, t, b1, s1)           # first model: whatever may be remembered is now warm
    from .C14 import _parity_lemmas
    for s in idx:
        got = tg.generator_on_product(phi, s, t, b2, s2)
        ref = tg.generator_on_product(phi2, s, t2, ctx.input('b2', (d,), False), ctx.input('sigma2', (d, d2), False))
        ctx.eq('generator_on_product%s for a second drift/diffusion == result of fresh basis-function objects' % (list(s),), got, ref,
               **({'extra_assumptions': _parity_lemmas(got, ref)} if ctx.sym else {'tol': 1e-10}))
        for i in range(d2):
            g2 = tg.generator_on_product_reversible(phi, s, i, t, s2)
            r2 = tg.generator_on_product_reversible(phi2, s, i, t2, ctx.input('sigma2', (d, d2), False))
            ctx.eq('generator_on_product_reversible%s column %d for a second diffusion == result of fresh objects' % (list(s), i), g2, r2,
                   **({'extra_assumptions': _parity_lemmas(g2, r2)} if ctx.sym else {'tol': 1e-10}))
