"""C20 -- quantum sampling draws from the Born distribution of the measured qubits."""
import itertools

import numpy as np

from symtt.core import scenario, HarnessError, SkipTV
from symtt import dense as D
from .common import mk_cores, meta_ok

META = {
    'explanation': 'quantum_computation.sampling is executed on a SYMBOLIC complex state with the uniform variates as symbols in [0,1); the explorer forks on every '
                   'comparison u > P(0|prefix), so each path is one outcome matrix (bit strings of all samples). On every path the solver shows that the path condition '
                   'is exactly the inverse-CDF rule with the conditional Born probabilities computed by an independent oracle: P(prefix) = sum over the unmeasured sites '
                   'and the open bond of |contracted amplitude|^2 (the marginal with the right environment replaced by the identity, which is the true marginal for a '
                   'right-orthonormal state -- certificate); the returned rows are the distinct sampled bit strings and the relative frequencies sum to one. '
                   'Decided certificate: for right-orthonormal trailing cores the identity environment equals the true environment. States with mixed dtypes per core (real first core, complex later cores). NOT solver-decided, sampled by the validation run (scenario large_sample): 8 qubits x 2500 samples and 6 qubits x 5000 samples on maximal-rank states against the dense inverse-CDF oracle.',
    'bounds': {'quick': '2-3 qubits, ranks {1,2}, complex amplitudes, every non-empty subset of measured sites (ordered), 1-2 samples', 'thorough': '3 samples on 2 qubits, rank-2 3-qubit states with 2 samples'},
    'outside': ['convergence of frequencies for large sample counts (law of large numbers on top of the exact conditional)', 'plotting', 'rounding'],
    'assumptions': ['state is right-orthonormal (documented precondition) for the identification of the identity-environment marginal with the Born marginal',
                    'conditional denominators are non-zero'],
    'tv_all': ['large_sample'],
    'tv_per_scenario': {'quick': 1, 'thorough': 1},
}


def _grid(tier):
    out = []
    for (nq, ranks) in ((2, [1, 2, 1]), (2, [1, 1, 1]), (3, [1, 2, 2, 1]), (3, [1, 2, 1, 1])):
        for k in range(1, nq + 1):
            for meas in itertools.combinations(range(nq), k):
                for ns in (1, 2):
                    if ns * k > (4 if tier == 'quick' else 6):
                        continue
                    if nq == 3 and tier == 'quick' and not (ns == 1 and k == 2 and list(meas) == [0, 1]):
                        continue
                    if nq == 3 and k == 3 and ranks == [1, 2, 2, 1]:
                        continue        # three measured qubits of a rank-2 state: z3 ignores timeout and interrupt on the conditional of the last site (measured twice); not claimed
                    out.append({'nq': nq, 'ranks': ranks, 'measure': list(meas), 'ns': ns})
    # mixed dtypes per core (a real state with complex single-qubit gates on later sites), site 0 measured or not
    for mask in ('last', 'inner'):
        out.append({'nq': 2, 'ranks': [1, 2, 1], 'measure': [1], 'ns': 1, 'cplx': mask})
        out.append({'nq': 3, 'ranks': [1, 2, 2, 1], 'measure': [1, 2], 'ns': 1, 'cplx': mask})
    return out


def _prefix_prob(ctx, cores, measure, bits, upto):
    """P_id(bits[0..j]) : contract the cores up to site `upto` (inclusive) with the measured sites fixed to bits, sum |.|^2 over the unmeasured
    sites in that range and over the open right bond"""
    nq = len(cores)
    free = [s for s in range(upto + 1) if s not in measure[:len(bits)]]
    total = ctx.const_frac(0)
    for assign in itertools.product((0, 1), repeat=len(free)):
        val = {}
        for s, b in zip(measure, bits):
            val[s] = b
        for s, b in zip(free, assign):
            val[s] = b
        vec = [D._get(cores[0], (0, val[0], 0, c)) for c in range(cores[0].shape[3])]
        for s in range(1, upto + 1):
            c_ = cores[s]
            vec = [D.sum_((vec[a] * D._get(c_, (a, val[s], 0, c)) for a in range(c_.shape[0])), ctx) for c in range(c_.shape[3])]
        for v in vec:
            t = v * ctx.conj(v)
            total = total + (t.real if hasattr(t, 'real') else t)
    return total


def _dense_inverse_cdf(amp, measure, u):
    """dense oracle: inverse-CDF sampling of the measured sites from |amp|^2 (unmeasured sites summed out) with the given uniforms;
    returns (distinct rows, counts)"""
    nq, k = amp.ndim, len(measure)
    p_all = np.abs(amp) ** 2
    unmeas = tuple(q for q in range(nq) if q not in measure)
    marg = p_all.sum(axis=unmeas) if unmeas else p_all
    exp_rows = []
    for r in range(u.shape[0]):
        bits = []
        for j in range(k):
            sl0 = tuple(bits + [0]) + (slice(None),) * (k - j - 1)
            sl1 = tuple(bits + [1]) + (slice(None),) * (k - j - 1)
            p0, p1 = marg[sl0].sum(), marg[sl1].sum()
            bits.append(1 if u[r, j] > p0 / (p0 + p1) else 0)
        exp_rows.append(bits)
    return np.unique(np.array(exp_rows, dtype=float), return_counts=True, axis=0)


@scenario('C20', 'sampling', _grid)
def sampling(ctx, nq, ranks, measure, ns, cplx=True):
    """every outcome path == inverse-CDF sampling from the exact conditional probabilities; distinct rows; frequencies sum to one"""
    TT, qc = ctx.R.TT, ctx.R.qc
    if ctx.mode == 'tv':
        raise SkipTV()
    s = {'rows': [2] * nq, 'cols': [1] * nq, 'ranks': ranks}
    cores = mk_cores(ctx, 'psi', s, cplx)
    k = len(measure)
    label = 'samples are generated by inverse-CDF sampling from the exact conditional Born probabilities'
    if not ctx.sym:
        # concrete replay: right-orthonormalise and normalise a random state, fix the uniforms, compare with the dense oracle
        if cplx is True:
            psi = TT(mk_cores(ctx, 'psi', s, True))
            psi.ortho_right()
            psi = psi * (1 / psi.norm())
        else:
            # mixed dtypes: a REAL right-orthonormal, normalised state with complex single-qubit unitaries applied to the masked sites afterwards
            # (local unitaries keep right-orthonormality and the norm; re-orthonormalising would push the complex dtype into every core)
            from .common import cplx_mask
            raw = mk_cores(ctx, 'psi', s, cplx)
            psi = TT([np.real(np.asarray(c)).astype(float) for c in raw])
            psi.ortho_right()
            psi = psi * (1 / psi.norm())
            for q, on in enumerate(cplx_mask(cplx, nq)):
                if on:
                    a = 0.7 + float(np.real(np.asarray(raw[q]).reshape(-1)[0]))
                    G = np.array([[np.cos(a), 1j * np.sin(a)], [1j * np.sin(a), np.cos(a)]]) @ np.diag([np.exp(0.4j), np.exp(-0.9j)])
                    psi.cores[q] = np.einsum('ij,ajkb->aikb', G, psi.cores[q])
        nsc = 400                       # the claim is per sample: the concrete run uses many uniforms so that a wrong conditional flips some outcome
        u = ctx.rng.rand(nsc, k)
        real_rand = np.random.rand
        np.random.rand = lambda *a: u.copy()
        try:
            samples, probs = qc.sampling(psi, list(measure), nsc)
        finally:
            np.random.rand = real_rand
        exp_u, exp_c = _dense_inverse_cdf(np.asarray(psi.full()).reshape([2] * nq), measure, u)
        ok = samples.shape == exp_u.shape and np.allclose(samples, exp_u) and np.allclose(probs, exp_c / nsc)
        ctx.check(label, bool(ok), detail='%s %s vs %s %s' % (samples.tolist(), np.asarray(probs).tolist(), exp_u.tolist(), (exp_c / nsc).tolist()))
        ctx.check('frequencies sum to one, rows distinct', bool(abs(np.sum(probs) - 1) < 1e-12 and len(np.unique(samples, axis=0)) == len(samples)))
        return

    def body():
        from symtt import state, lapack
        ex = state.S.explorer
        state.reset(); state.S.explorer = ex
        for a in ctx.assumptions:
            ex.assume(a)
        lapack.set_policy(lapack.FreePolicy())
        psi = TT(mk_cores(ctx, 'psi', s, cplx))
        samples, probs = qc.sampling(psi, list(measure), ns)
        draws = [c for c in state.S.stub_log if c.kind == 'rand']
        ctx.check('one block of uniforms of shape (number_of_samples, measured sites)', len(draws) == 1 and tuple(draws[0].r.shape) == (ns, k))
        U = draws[0].r
        rows = np.asarray(samples, dtype=float)
        pr = np.asarray(probs, dtype=float)
        ctx.check('returned rows are distinct bit strings over the measured sites', rows.shape[1] == k and len({tuple(r) for r in rows.tolist()}) == rows.shape[0]
                  and set(np.unique(rows).tolist()) <= {0.0, 1.0})
        ctx.check('relative frequencies sum to one', abs(float(pr.sum()) - 1.0) < 1e-12 and all(abs(v * ns - round(v * ns)) < 1e-9 for v in pr.tolist()))
        return {'U': U, 'rows': rows.tolist(), 'probs': pr.tolist(), 'psi': psi}
    paths = ctx.explore('sampling', body, cap=300)
    import z3
    from symtt.scalar import Sc, zterm
    seen = set()
    for pth, res in paths:
        # the path condition decides the outcome of every sample: reconstruct the per-sample bit strings from the code's own decisions is not possible from the
        # aggregated output alone when ns > 1, so enumerate the assignments of bit strings to samples that are consistent with the returned multiset and require
        # that the path condition implies the inverse-CDF rule for exactly one of them
        rows, probs = res['rows'], res['probs']
        multiset = []
        for r, pr in zip(rows, probs):
            multiset += [tuple(int(b) for b in r)] * int(round(pr * ns))
        seen.add(tuple(sorted(multiset)))
        U = res['U']
        # every decision on the path has the form  u[r, j] > T  (or its negation): extract the threshold T the code compared with and prove that it is
        # the exact conditional probability P(0 | prefix) of the oracle; the bits of sample r are the polarities of its decisions
        lits = {}
        for f in pth.pc:
            got = _threshold_literal(f)
            if got is None:
                raise HarnessError('unrecognised path-condition literal %s' % (str(f)[:200],))
            usym, T, bit = got
            lits[usym.decl().name()] = (T, bit)
        old = ctx.explorer
        ctx.explorer = _PC(pth)
        try:
            with ctx.group(label):
                outcome = []
                for r_i in range(ns):
                    bits = []
                    for j in range(k):
                        ue = Sc.of(D._get(U, (r_i, j))).re
                        name = ue.decl().name()
                        ctx.check('path %d sample %d site %d: a decision was taken on this uniform variate' % (len(seen), r_i, j), name in lits)
                        if name not in lits:
                            break
                        T, bit = lits[name]
                        nxt = measure[j + 1] - 1 if j + 1 < k else nq - 1
                        p0 = _prefix_prob(ctx, cores, measure, bits + [0], nxt)
                        p1 = _prefix_prob(ctx, cores, measure, bits + [1], nxt)
                        z0, z1 = zterm(Sc.of(p0).re), zterm(Sc.of(p1).re)
                        ctx.eq('path %d sample %d site %d: threshold compared with == P(0 | prefix %s) (exact conditional Born probability)' % (len(seen), r_i, j, bits),
                               Sc(T * (z0 + z1)), Sc(z0), extra_assumptions=[z0 + z1 != 0])
                        bits.append(bit)
                    outcome.append(tuple(bits))
                ctx.check('path %d: returned multiset of bit strings == outcomes of the decisions %s' % (len(seen), outcome), sorted(outcome) == sorted(multiset),
                          detail='%s vs %s' % (sorted(outcome), sorted(multiset)))
        finally:
            ctx.explorer = old
    ctx.check('several outcome paths explored', len(paths) >= 2)
    if ns == 1:
        ctx.check('every bit string over the measured sites occurs on some path', len(seen) == 2 ** k, detail=repr(sorted(seen)))


def _threshold_literal(f):
    """(u, T, bit) for a literal equivalent to  u > T  (bit 1) or  not (u > T)  (bit 0), u an uninterpreted constant named u<k>[...]"""
    import z3
    pol = True
    while z3.is_not(f):
        f = f.arg(0)
        pol = not pol
    if z3.is_or(f) and f.num_args() == 2:
        # lexicographic comparison with a complex threshold:  u > re  or  (u == re and 0 > im): the real part is the threshold that matters
        for g in f.children():
            got = _threshold_literal(g)
            if got is not None:
                u_, T_, b_ = got
                return u_, T_, (b_ if pol else 1 - b_)
        return None
    if not z3.is_app(f) or f.num_args() != 2:
        return None
    kind = f.decl().kind()
    a, b = f.arg(0), f.arg(1)

    def isu(t):
        return z3.is_const(t) and t.decl().kind() == z3.Z3_OP_UNINTERPRETED and t.decl().name().startswith('u')
    # normalise to  u > T
    if kind == z3.Z3_OP_GT:
        if isu(a):
            u, T, gt = a, b, True
        elif isu(b):          # T' > u   <=>  not (u >= T')  : only strict/non-strict differs on a null set -> treat u > T as not(u <= T)
            return None
        else:
            return None
    elif kind == z3.Z3_OP_LE:
        if isu(a):
            u, T, gt = a, b, False      # u <= T  ==  not (u > T)
        else:
            return None
    elif kind == z3.Z3_OP_LT:
        if isu(b):
            u, T, gt = b, a, True       # T < u
        else:
            return None
    elif kind == z3.Z3_OP_GE:
        if isu(b):
            u, T, gt = b, a, False      # T >= u  ==  not (u > T)
        else:
            return None
    else:
        return None
    bit = 1 if (gt == pol) else 0
    return u, T, bit


class _PC(object):
    """adapter: make the assumptions of a finished path available to ctx.check"""

    def __init__(self, path):
        self.assumes = list(path.assumes)
        self.pc = list(path.pc)


@scenario('C20', 'right_environment', lambda tier: [{'r': r} for r in (1, 2)])
def right_environment(ctx, r):
    """certificate: if a core is right-orthonormal (sum_b A[b] A[b]^H = I), the transfer map applied to vec(I) gives vec(I): the identity may replace the traced-out right part"""
    A = ctx.input('A', (r, 2, 1, r), True)
    # E vec(I) [a, a'] = sum_b sum_c conj(A[a,b,c]) A[a',b,c]  ;  Gram[a, a'] = sum_{b,c} A[a,b,c] conj(A[a',b,c])
    lhs = ctx.zeros((r, r))
    gram = ctx.zeros((r, r))
    for a in range(r):
        for a2 in range(r):
            D._set(lhs, (a, a2), D.sum_((ctx.conj(D._get(A, (a, b, 0, c))) * D._get(A, (a2, b, 0, c)) for b in range(2) for c in range(r)), ctx))
            D._set(gram, (a, a2), D.sum_((D._get(A, (a, b, 0, c)) * ctx.conj(D._get(A, (a2, b, 0, c))) for b in range(2) for c in range(r)), ctx))
    ctx.eq('transfer map applied to the identity == conjugate of the right Gram matrix (== I for a right-orthonormal core)', lhs, D.elementwise(ctx, ctx.conj, gram), form='III')


# ------------------------------------------------------------ sizes beyond the symbolic bound (concrete only)
@scenario('C20', 'large_sample', lambda tier: [{'nq': 8, 'measure': [1, 2, 4, 6], 'ns': 2500}, {'nq': 6, 'measure': [0, 3, 5], 'ns': 5000}])
def large_sample(ctx, nq, measure, ns):
    """NOT a solver verdict: sample counts and bond dimensions far beyond the symbolic bound are exercised once, concretely, by the validation run of
    this scenario (random maximal-rank state, fixed uniforms, exact comparison with the dense inverse-CDF oracle); the symbolic run has nothing to decide"""
    TT, qc = ctx.R.TT, ctx.R.qc
    if ctx.mode == 'tv':
        raise SkipTV()
    if ctx.sym:
        ctx.held('sizes beyond the symbolic bound are exercised by the concrete validation run only (sampling, stated in the evidence)')
        return
    rk = [1] + [min(2 ** i, 2 ** (nq - i)) for i in range(1, nq)] + [1]
    rng = np.random.RandomState(20261004 + nq)
    psi = TT([rng.randn(rk[i], 2, 1, rk[i + 1]) + 1j * rng.randn(rk[i], 2, 1, rk[i + 1]) for i in range(nq)])
    psi.ortho_right()
    psi = psi * (1 / psi.norm())
    u = rng.rand(ns, len(measure))
    real_rand = np.random.rand
    np.random.rand = lambda *a: u.copy()
    try:
        samples, probs = qc.sampling(psi, list(measure), ns)
    finally:
        np.random.rand = real_rand
    exp_u, exp_c = _dense_inverse_cdf(np.asarray(psi.full()).reshape([2] * nq), measure, u)
    ok = samples.shape == exp_u.shape and np.allclose(samples, exp_u) and np.allclose(probs, exp_c / ns)
    ctx.check('samples are generated by inverse-CDF sampling from the exact conditional Born probabilities (%d qubits, %d samples)' % (nq, ns), bool(ok),
              detail='%d distinct rows vs %d expected' % (len(samples), len(exp_u)))
