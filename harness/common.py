"""Shape grids shared by the harnesses.

A shape is {'rows': [...], 'cols': [...], 'ranks': [1, ..., 1]}.  Inside the stated
bound the grid is enumerated completely in the thorough tier; the quick tier
takes all *edge* shapes (order 1, rank-1 bonds, size-1 modes, unequal ranks) plus a
deterministic stride through the rest.
"""
import itertools


DEEP = 1          # set to 3 by the driver for the thorough tier: pick() selects three times as many shapes, from a universe that includes order 4


def all_shapes(orders=(1, 2, 3), dims=(1, 2), ranks=(1, 2), vector=False, square=False):
    if DEEP > 1 and tuple(orders) == (1, 2, 3):
        orders = (1, 2, 3, 4)
    out = []
    for d in orders:
        for rows in itertools.product(dims, repeat=d):
            colset = [tuple([1] * d)] if vector else ([rows] if square else list(itertools.product(dims, repeat=d)))
            for cols in colset:
                for rk in itertools.product(ranks, repeat=d - 1):
                    out.append({'rows': list(rows), 'cols': list(cols), 'ranks': [1] + list(rk) + [1]})
    return out


def is_edge(s):
    d = len(s['rows'])
    return d == 1 or 1 in s['ranks'][1:-1] or 1 in s['rows'] or len(set(s['ranks'][1:-1])) > 1


def pick(shapes, n, always=lambda s: False):
    """deterministic subset of size ~n: everything `always` selects (capped at n) + an even stride"""
    n = n * DEEP
    must = [s for s in shapes if always(s)]
    rest = [s for s in shapes if not always(s)]
    if len(must) > n:
        step = len(must) / float(n)
        must = [must[int(i * step)] for i in range(n)]
    k = max(0, n - len(must))
    if k and rest:
        step = max(1.0, len(rest) / float(k))
        rest = [rest[int(i * step)] for i in range(min(k, len(rest)))]
    else:
        rest = []
    return must + rest


def cplx_mask(cplx, d):
    """cplx: bool | list of bool | 'first' | 'last' | 'inner' -> which cores carry complex entries"""
    if isinstance(cplx, (list, tuple)):
        return [bool(x) for x in cplx]
    if cplx == 'first':
        return [i == 0 for i in range(d)]
    if cplx == 'last':
        return [i == d - 1 for i in range(d)]
    if cplx == 'inner':
        return [0 < i < d - 1 or d <= 2 and i == d - 1 for i in range(d)]
    return [bool(cplx)] * d


def mk_cores(ctx, name, s, cplx=False, **kw):
    d = len(s['rows'])
    m = cplx_mask(cplx, d)
    return [ctx.input('%s%d' % (name, i), (s['ranks'][i], s['rows'][i], s['cols'][i], s['ranks'][i + 1]), m[i], **kw) for i in range(d)]


def meta_ok(ctx, label, t):
    """order / row_dims / col_dims / ranks / cores mutually consistent"""
    ok = (t.order == len(t.cores) and len(t.row_dims) == t.order and len(t.col_dims) == t.order and len(t.ranks) == t.order + 1)
    if ok:
        for i in range(t.order):
            sh = tuple(t.cores[i].shape)
            ok &= len(sh) == 4 and sh == (t.ranks[i], t.row_dims[i], t.col_dims[i], t.ranks[i + 1])
    return ctx.check(label + ': metadata consistent with cores', bool(ok), detail=repr((t.order, t.row_dims, t.col_dims, t.ranks, [tuple(c.shape) for c in t.cores])))


_OW = {}


def free_policy(ctx, **kw):
    """symbolic mode: reset the executor state and install a FreePolicy that also models in-place LAPACK (calibrated against
    the real SciPy once per process).  No-op in concrete mode."""
    if not ctx.sym:
        return None
    from symtt import state, lapack
    if 'tab' not in _OW:
        _OW['tab'] = lapack.calibrate_overwrite()
    ex = state.S.explorer
    state.reset()
    state.S.explorer = ex            # keep an active path explorer across the reset
    if ex is not None:
        for a in ctx.assumptions:
            ex.assume(a)
    kw.setdefault('assume_sorted_spectrum', False)
    return lapack.set_policy(lapack.FreePolicy(model_overwrite=True, overwrite_table=_OW['tab'], **kw))


def spec_sorted(v, descending=False):
    """eigenvalues as a canonically ordered complex vector: by real part, then imaginary part, both rounded to 1e-7 so that a conjugate pair whose real
    parts differ by rounding noise is ordered the same way on both sides of a comparison"""
    import numpy as _np
    v = _np.asarray(v, dtype=complex).reshape(-1)
    idx = _np.lexsort((_np.round(v.imag, 7), _np.round(v.real, 7)))
    out = v[idx]
    return out[::-1] if descending else out
