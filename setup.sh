#!/bin/bash
# Build the check environment offline: an overlay venv on /venv (numpy/scipy of the repo)
# plus z3-solver / cvc5 / crosshair-tool from the local wheelhouse.  Idempotent.
set -e
cd "$(dirname "$0")"
V="$(pwd)/.venv"
if [ ! -x "$V/bin/python" ] || ! "$V/bin/python" -c "import z3, numpy, scipy" 2>/dev/null; then
  rm -rf "$V"
  /venv/bin/python -m venv "$V"
  SP=$("$V/bin/python" -c "import site; print(site.getsitepackages()[0])")
  echo "/venv/lib/python3.12/site-packages" > "$SP/_verif_overlay.pth"
  PIP_NO_INDEX=1 "$V/bin/pip" install -q --no-index --find-links /opt/veriftools/wheels z3-solver cvc5 jsonschema >/dev/null 2>&1 || \
  PIP_NO_INDEX=1 "$V/bin/pip" install -q --no-index --find-links /opt/veriftools/wheels z3-solver
fi
"$V/bin/python" -c "import z3, numpy, scipy; print('verif env ok: z3', z3.get_version_string(), 'numpy', numpy.__version__)"
