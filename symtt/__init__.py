"""SYMTT: symbolic execution of the real scikit_tt code over exact reals (see DESIGN.md)."""
