"""`SymArray`: numpy.ndarray subclass (dtype=object) of `Sc` with a modelled dtype kind.

Views, strides, contiguity, reshape copy-or-view decisions, fancy indexing and
broadcasting are numpy's own, so aliasing between cores is exactly what it is in
production.  The modelled kind ('b','i','f','c') implements the value semantics
the repo relies on: storing a complex value into a float array drops the
imaginary part (numpy's ComplexWarning behaviour; recorded as an event).
"""
import itertools
from fractions import Fraction

import numpy as _np
import z3

from . import state
from .scalar import Sc, SymBool, sym, zterm, _is_conc

KORD = {'b': 0, 'i': 1, 'f': 2, 'c': 3}


def kind_of_dtype(dt):
    if dt is None:
        return 'f'
    if isinstance(dt, _DT):
        return dt.kind
    if dt is complex or dt is _np.complex128 or dt is _np.complex64:
        return 'c'
    if dt is float or dt is _np.float64 or dt is _np.float32:
        return 'f'
    if dt is int or dt is _np.int64 or dt is _np.int32 or dt is _np.intp:
        return 'i'
    if dt is bool or dt is _np.bool_:
        return 'b'
    if dt is object:
        return 'c'
    k = _np.dtype(dt).kind
    return {'c': 'c', 'f': 'f', 'i': 'i', 'u': 'i', 'b': 'b'}[k]


def kind_of(x):
    if isinstance(x, SymArray):
        return x.kind
    if isinstance(x, _np.ndarray):
        if x.dtype == object:
            ks = [kind_of(e) for e in x.flat] or ['f']
            return max(ks, key=KORD.get)
        return kind_of_dtype(x.dtype)
    if isinstance(x, Sc):
        return 'f' if x.is_real else 'c'
    if isinstance(x, (bool, _np.bool_)):
        return 'b'
    if isinstance(x, (int, _np.integer)):
        return 'i'
    if isinstance(x, (float, _np.floating, Fraction)):
        return 'f'
    if isinstance(x, (complex, _np.complexfloating)):
        return 'c'
    if isinstance(x, (list, tuple)):
        ks = [kind_of(e) for e in x] or ['f']
        return max(ks, key=KORD.get)
    return 'f'


def maxkind(*xs):
    return max((kind_of(x) for x in xs), key=KORD.get)


def _opkind(*xs):
    """result kind of a binary arithmetic op: python scalars / real Sc are weak"""
    arr = [kind_of(x) for x in xs if isinstance(x, _np.ndarray) and x.ndim > 0]
    sca = [kind_of(x) for x in xs if not (isinstance(x, _np.ndarray) and x.ndim > 0)]
    k = max(arr, key=KORD.get) if arr else 'b'
    for s in sca:
        if KORD[s] > KORD[k]:
            # weak scalar promotion: category change only
            k = s
    return k


class _DT(object):
    """what `arr.dtype` returns; compares the way numpy dtypes do in the repo code"""

    def __init__(self, kind):
        self.kind = kind

    def __eq__(self, o):
        try:
            return kind_of_dtype(o) == self.kind
        except Exception:
            return False

    def __ne__(self, o):
        return not self.__eq__(o)

    def __hash__(self):
        return hash(self.kind)

    @property
    def name(self):
        return {'c': 'complex128', 'f': 'float64', 'i': 'int64', 'b': 'bool'}[self.kind]

    def __repr__(self):
        return 'symdtype(%s)' % self.kind


def _cast(v, kind):
    if isinstance(v, SymBool):
        # a symbolic truth value stored as a number (e.g. sample = (u > p)): decided by the path explorer -> concrete 0/1
        v = 1 if bool(v) else 0
    v = Sc.of(v)
    if kind != 'c' and not v.is_real:
        state.S.events.append('ComplexWarning: imaginary part discarded on store')
        v = Sc(v.re)
    if kind in ('i', 'b'):
        if v.is_concrete:
            if kind == 'b':
                return Sc(1 if v.re != 0 else 0)
            f = Fraction(v.re)
            if f.denominator != 1:
                t = int(f)  # truncation toward zero
                return Sc(t)
        elif kind == 'i':
            # NumPy truncates toward zero on a store into an integer array: trunc(x) = floor(x) for x >= 0, -floor(-x) otherwise
            import z3
            from .scalar import zterm
            x = zterm(v.re)
            state.S.events.append('store of a symbolic value into an integer array: truncated toward zero')
            return Sc(z3.If(x >= 0, z3.ToReal(z3.ToInt(x)), -z3.ToReal(z3.ToInt(-x))))
        else:
            raise NotImplementedError('store of symbolic value into bool array')
    return v


def _vec(f, a):
    a = a.view(_np.ndarray)
    out = _np.empty(a.shape, dtype=object)
    of = out.reshape(-1)
    for i, e in enumerate(a.flat):
        of[i] = f(e)
    return out


def _plain(x):
    if isinstance(x, SymArray):
        return x.view(_np.ndarray)
    if isinstance(x, _np.ndarray) and x.dtype != object:
        return asobj(x).view(_np.ndarray)
    if isinstance(x, (list, tuple)):
        return asobj(x).view(_np.ndarray)
    return x


_CMP = {_np.greater, _np.less, _np.greater_equal, _np.less_equal, _np.equal, _np.not_equal}
_UNARY = {
    _np.negative: lambda e: -Sc.of(e),
    _np.positive: lambda e: Sc.of(e),
    _np.conjugate: lambda e: Sc.of(e).conjugate(),
    _np.absolute: lambda e: abs(Sc.of(e)),
    _np.sqrt: lambda e: Sc.of(e).sqrt(),
    _np.exp: lambda e: Sc.of(e).exp(),
    _np.sin: lambda e: Sc.of(e).sin(),
    _np.cos: lambda e: Sc.of(e).cos(),
    _np.reciprocal: lambda e: Sc(1) / Sc.of(e),
    _np.square: lambda e: Sc.of(e) * Sc.of(e),
}


def sc_max(a, b):
    a, b = Sc.of(a), Sc.of(b)
    if a.is_concrete and b.is_concrete:
        return a if a.re >= b.re else b
    if isinstance(a.re, float) or isinstance(b.re, float):
        x, y = (a, b) if isinstance(a.re, float) else (b, a)
        return x if x.re > 0 else y
    return Sc(z3.If(zterm(a.re) >= zterm(b.re), zterm(a.re), zterm(b.re)))


def sc_min(a, b):
    a, b = Sc.of(a), Sc.of(b)
    if a.is_concrete and b.is_concrete:
        return a if a.re <= b.re else b
    if isinstance(a.re, float) or isinstance(b.re, float):
        x, y = (a, b) if isinstance(a.re, float) else (b, a)
        return x if x.re < 0 else y
    return Sc(z3.If(zterm(a.re) <= zterm(b.re), zterm(a.re), zterm(b.re)))


class SymArray(_np.ndarray):
    def __new__(cls, shape, kind='f', fill=0):
        if _np.isscalar(shape):
            shape = (int(shape),)
        a = _np.ndarray.__new__(cls, tuple(int(s) for s in shape), dtype=object)
        a.kind = kind
        a.view(_np.ndarray).fill(Sc(fill))
        return a

    def __array_finalize__(self, obj):
        self.kind = getattr(obj, 'kind', 'f')

    @property
    def dtype(self):
        return _DT(self.kind)

    def plain(self):
        return self.view(_np.ndarray)

    # ------------------------------------------------------------------ store
    def __setitem__(self, idx, val):
        if isinstance(val, (_np.ndarray, list, tuple)):
            v = asobj(val)
            out = _np.empty(v.shape, dtype=object)
            of = out.reshape(-1)
            for i, e in enumerate(v.view(_np.ndarray).flat):
                of[i] = _cast(e, self.kind)
            val = out
        else:
            val = _cast(val, self.kind)
        _np.ndarray.__setitem__(self, idx, val)

    def fill(self, v):
        _np.ndarray.fill(self, _cast(v, self.kind))

    # ----------------------------------------------------------------- ufuncs
    def __array_ufunc__(self, ufunc, method, *inputs, **kw):
        out = kw.pop('out', None)
        if method != '__call__':
            if method == 'reduce' and ufunc in (_np.add, _np.multiply, _np.maximum, _np.minimum):
                a = inputs[0]
                if ufunc is _np.add:
                    return a.sum(**kw)
                if ufunc is _np.multiply:
                    return _reduce(a, lambda x, y: Sc.of(x) * Sc.of(y), Sc(1), kw.get('axis', None), a.kind)
                if ufunc is _np.maximum:
                    return a.max(**kw)
                return a.min(**kw)
            raise NotImplementedError('ufunc method %s.%s' % (ufunc.__name__, method))
        if ufunc in _UNARY:
            x = inputs[0]
            k = kind_of(x)
            res = _vec(_UNARY[ufunc], asobj(x))
            if ufunc is _np.absolute:
                k = 'f' if k in ('f', 'c') else k
            elif ufunc in (_np.sqrt, _np.exp, _np.sin, _np.cos, _np.reciprocal) and k in ('i', 'b'):
                k = 'f'
            res = wrap(res, k)
        elif ufunc in _CMP:
            ins = [_plain(x) for x in inputs]
            res = getattr(ufunc, method)(*ins, **kw)
            return res if not isinstance(res, SymArray) else res.view(_np.ndarray)
        elif ufunc in (_np.maximum, _np.minimum):
            f = sc_max if ufunc is _np.maximum else sc_min
            a, b = _np.broadcast_arrays(_plain(asobj(inputs[0])), _plain(asobj(inputs[1])))
            r = _np.empty(a.shape, dtype=object)
            for i in _np.ndindex(*a.shape):
                r[i] = f(a[i], b[i])
            res = wrap(r, maxkind(*inputs))
        elif ufunc in (_np.add, _np.subtract, _np.multiply, _np.true_divide, _np.matmul, _np.power):
            ins = [_plain(x) for x in inputs]
            k = _opkind(*inputs)
            if ufunc is _np.true_divide and k in ('i', 'b'):
                k = 'f'
            if ufunc is _np.matmul and 0 in [d for x in ins for d in _np.shape(x)]:
                raise NotImplementedError('matmul with empty operand')
            res = getattr(ufunc, method)(*ins, **kw)
            if isinstance(res, _np.ndarray):
                res = wrap(_fixobj(res), k)
            else:
                res = Sc.of(res)
        else:
            raise NotImplementedError('ufunc %s on SymArray' % ufunc.__name__)
        if out is not None:
            tgt = out[0]
            tgt[...] = res
            return tgt
        return res

    # ---------------------------------------------------------------- methods
    def conj(self):
        return wrap(_vec(lambda e: Sc.of(e).conjugate(), self), self.kind)
    conjugate = conj

    @property
    def real(self):
        return wrap(_vec(lambda e: Sc.of(e).real, self), 'f' if self.kind == 'c' else self.kind)

    @property
    def imag(self):
        return wrap(_vec(lambda e: Sc.of(e).imag, self), 'f' if self.kind == 'c' else self.kind)

    def dot(self, o):
        return dot(self, o)

    def astype(self, dt, **kw):
        k = kind_of_dtype(dt)
        if k in ('i', 'b') and all(Sc.of(e).is_concrete for e in self.plain().flat):
            # concrete integers (indices, counts): a real numpy integer array
            return _np.array([int(Fraction(Sc.of(e).re)) if k == 'i' else bool(Sc.of(e).re != 0) for e in self.plain().flat],
                             dtype=int if k == 'i' else bool).reshape(self.shape)
        out = SymArray(self.shape, k)
        out[...] = self.plain()
        return out

    def copy(self, order='C'):
        r = _np.ndarray.copy(self, order)
        r.kind = self.kind
        return r

    def sum(self, axis=None, **kw):
        return _reduce(self, lambda x, y: Sc.of(x) + Sc.of(y), Sc(0), axis, self.kind)

    def max(self, axis=None, **kw):
        return _reduce(self, sc_max, None, axis, self.kind)

    def min(self, axis=None, **kw):
        return _reduce(self, sc_min, None, axis, self.kind)

    def argsort(self, axis=-1, **kw):
        from .npshim import shim
        return shim.argsort(self)

    def argmax(self, axis=None, **kw):
        from .npshim import shim
        return shim.argmax(self, axis)

    def trace(self, *a, **k):
        assert self.ndim == 2
        r = Sc(0)
        for i in range(min(self.shape)):
            r = r + self.plain()[i, i]
        return r

    def tofloat(self):
        """concrete SymArray -> float/complex ndarray"""
        if self.kind == 'c':
            return _np.array([complex(e) for e in self.plain().flat], dtype=complex).reshape(self.shape)
        return _np.array([float(e) for e in self.plain().flat], dtype=float).reshape(self.shape)

    def __repr__(self):
        return 'SymArray(kind=%s, shape=%s)' % (self.kind, self.shape)

    __str__ = __repr__

    def __bool__(self):
        if self.size == 1:
            return bool(self.plain().reshape(-1)[0])
        raise ValueError('truth value of SymArray')


def _fixobj(a):
    """make sure every element of an object array is an Sc (numpy may leave ints)"""
    f = a.reshape(-1) if a.flags.c_contiguous else None
    if f is None:
        a = _np.ascontiguousarray(a)
        f = a.reshape(-1)
    for i in range(f.size):
        if not isinstance(f[i], Sc):
            f[i] = Sc.of(f[i])
    return a


def _reduce(a, f, init, axis, kind):
    p = a.view(_np.ndarray)
    if axis is None:
        it = iter(p.flat)
        acc = init if init is not None else Sc.of(next(it))
        for e in it:
            acc = f(acc, e)
        return acc
    if isinstance(axis, tuple):
        r = a
        for ax in sorted([x % p.ndim for x in axis], reverse=True):
            r = _reduce(r, f, init, ax, kind)
            if not isinstance(r, _np.ndarray):
                return r
        return r
    axis = axis % p.ndim
    moved = _np.moveaxis(p, axis, 0)
    out = _np.empty(moved.shape[1:], dtype=object)
    for idx in _np.ndindex(*out.shape):
        col = moved[(slice(None),) + idx]
        it = iter(col)
        acc = init if init is not None else Sc.of(next(it))
        for e in it:
            acc = f(acc, e)
        out[idx] = acc
    if out.ndim == 0:
        return out.item()
    return wrap(out, kind)


def wrap(a, kind):
    if not isinstance(a, _np.ndarray):
        a = _np.asarray(a, dtype=object)
    r = a.view(SymArray)
    r.kind = kind
    return r


def asobj(x):
    """any array-like -> SymArray (identity for SymArray)"""
    if isinstance(x, SymArray):
        return x
    if isinstance(x, Sc):
        out = _np.empty((), dtype=object)
        out[()] = x
        return wrap(out, kind_of(x))
    a = x if isinstance(x, _np.ndarray) else _np.asarray(x, dtype=object if _has_sc(x) else None)
    if a.dtype != object:
        k = kind_of_dtype(a.dtype)
        out = _np.empty(a.shape, dtype=object)
        of = out.reshape(-1)
        for i, e in enumerate(a.flat):
            of[i] = Sc.of(e.item() if hasattr(e, 'item') else e)
        return wrap(out, k)
    out = _np.empty(a.shape, dtype=object)
    of = out.reshape(-1)
    for i, e in enumerate(a.flat):
        of[i] = Sc.of(e)
    return wrap(out, kind_of(a))


def _has_sc(x):
    if isinstance(x, Sc):
        return True
    if isinstance(x, _np.ndarray):
        return x.dtype == object
    if isinstance(x, (list, tuple)):
        return any(_has_sc(e) for e in x)
    return False


def is_sym(x):
    """does x (array-like / scalar) need the symbolic path"""
    return isinstance(x, (Sc, SymArray)) or (isinstance(x, _np.ndarray) and x.dtype == object) or \
        (isinstance(x, (list, tuple)) and _has_sc(x))


def dot(a, b):
    a = asobj(a)
    b = asobj(b)
    r = _np.dot(a.plain(), b.plain())
    if isinstance(r, _np.ndarray):
        return wrap(_fixobj(r), maxkind(a, b))
    return Sc.of(r)


def tensordot(a, b, axes=2):
    a = asobj(a)
    b = asobj(b)
    r = _np.tensordot(a.plain(), b.plain(), axes)
    return wrap(_fixobj(_np.asarray(r, dtype=object)), maxkind(a, b))


def symarray(name, shape, cplx=False):
    a = SymArray(shape, 'c' if cplx else 'f')
    p = a.plain()
    for idx in itertools.product(*[range(k) for k in a.shape]):
        p[idx] = sym(name + '[' + ','.join(map(str, idx)) + ']', cplx)
    return a


def einsum(spec, *ops):
    spec = spec.replace(' ', '')
    if '->' in spec:
        ins, out = spec.split('->')
    else:
        ins = spec
        cnt = {}
        for c in ins.replace(',', ''):
            cnt[c] = cnt.get(c, 0) + 1
        out = ''.join(sorted(c for c in cnt if cnt[c] == 1))
    ins = ins.split(',')
    ops = [asobj(o) for o in ops]
    dims = {}
    for s, o in zip(ins, ops):
        assert len(s) == o.ndim, (s, o.shape)
        for c, n in zip(s, o.shape):
            if c in dims and dims[c] != n:
                assert dims[c] == 1 or n == 1, 'einsum dimension mismatch'      # numpy broadcasts size-1 axes
                dims[c] = max(dims[c], n)
            else:
                dims[c] = n
    summed = [c for c in dims if c not in out]
    res = SymArray(tuple(dims[c] for c in out), maxkind(*ops))
    rp = res.plain()
    pl = [o.plain() for o in ops]
    for oidx in itertools.product(*[range(dims[c]) for c in out]):
        env = dict(zip(out, oidx))
        acc = Sc(0)
        for sidx in itertools.product(*[range(dims[c]) for c in summed]):
            env.update(zip(summed, sidx))
            t = Sc(1)
            for s, o in zip(ins, pl):
                e = o[tuple(env[c] if o.shape[ax] > 1 else 0 for ax, c in enumerate(s))]
                if e.is_zero():
                    t = None
                    break
                t = t * e
            if t is not None:
                acc = acc + t
        rp[oidx] = acc
    if res.ndim == 0:
        return rp[()]
    return res
