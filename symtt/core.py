"""Scenario context: the same scenario code runs

* symbolically  (mode 'sym'):  shimmed repo modules, inputs are SymArrays of fresh
  symbols, obligations are decided by the solver for all values;
* concretely    (mode 'conc'): untouched repo modules with the real NumPy/SciPy,
  inputs are float arrays (from a solver model, or random), obligations are
  compared numerically.  Used for replaying counterexamples and for
  translation validation of the shim;
* concretely through the shim (mode 'tv'): shimmed modules, exact concrete `Sc`
  values, stubs delegate to real LAPACK.
"""
import itertools
import time
import traceback
from fractions import Fraction

import numpy as _np

SCENARIOS = {}     # (property, name) -> Scenario


class Scenario(object):
    def __init__(self, prop, name, fn, grid, doc):
        self.prop, self.name, self.fn, self.grid, self.doc = prop, name, fn, grid, doc


def scenario(prop, name, grid):
    """grid(tier) -> list of dict params (JSON-serialisable)"""
    def deco(fn):
        SCENARIOS[(prop, name)] = Scenario(prop, name, fn, grid, (fn.__doc__ or '').strip())
        return fn
    return deco


def unchanged_inputs(*names):
    """decorator for scenario functions (placed BELOW @scenario): after the scenario body, every copy of the named inputs that was handed out by
    ctx.input -- one of them is what the code under test received -- must still hold the pristine values: plain ndarray arguments (data matrices,
    points, drift / diffusion) are not modified by the routines that only read them"""
    def deco(fn):
        import functools

        @functools.wraps(fn)
        def wrapped(ctx, *a, **k):
            r = fn(ctx, *a, **k)
            for nm in names:
                copies = ctx.handed.get(nm, [])
                if not copies or nm not in ctx.cache:
                    continue
                pristine = ctx.cache[nm]
                flat = [c for c in copies if _np.shape(c) == _np.shape(pristine)]
                if flat:
                    ctx.eq('input array %r is left unchanged' % nm, ctx.cat(flat), ctx.cat([pristine] * len(flat)), tol=0.0)
            return r
        return wrapped
    return deco


class HarnessError(Exception):
    pass


class SkipTV(Exception):
    """raised by a scenario whose concrete branch is written against plain NumPy (not meaningful through the shim)"""


class Obligation(object):
    def __init__(self, label, form, status, seconds=0.0, detail=None, model_inputs=None, note=''):
        self.group = None
        self.label = label
        self.form = form            # 'I' identity, 'II' chain, 'III' certificate, 'IV' logic, 'S' shape/metadata
        self.status = status        # 'unsat'(held) | 'sat'(counterexample) | 'unknown' | 'held' | 'failed'
        self.seconds = seconds
        self.detail = detail
        self.model_inputs = model_inputs
        self.note = note

    def asdict(self):
        return {'label': self.label, 'group': self.group, 'form': self.form, 'status': self.status, 'seconds': round(self.seconds, 3),
                'detail': self.detail, 'note': self.note, 'model_inputs': self.model_inputs}


def _tolist(a):
    a = _np.asarray(a)
    if a.dtype.kind == 'c':
        return [[float(x.real), float(x.imag)] for x in a.reshape(-1)]
    return [float(x) for x in a.reshape(-1)]


def _fromlist(l, shape, cplx):
    if cplx:
        return _np.array([complex(x[0], x[1]) if isinstance(x, (list, tuple)) else complex(x) for x in l], dtype=complex).reshape(shape)
    return _np.array([x[0] if isinstance(x, (list, tuple)) else x for x in l], dtype=float).reshape(shape)


class Ctx(object):
    def __init__(self, mode, R, params, inputs=None, seed=0, timeout_ms=60000, tier='quick'):
        self.mode = mode
        self.sym = mode == 'sym'
        self.R = R
        self.params = params
        self.given = inputs or {}
        self.rng = _np.random.RandomState(seed)
        self.timeout_ms = timeout_ms
        self.tier = tier
        self.obligations = []
        self.decl = {}          # name -> (shape, cplx, kwargs)
        self.cache = {}
        self.handed = {}        # name -> every copy handed out by input() (see unchanged_inputs)
        self.assumptions = []   # z3 formulas about inputs (sym)
        self.used_inputs = {}
        self.stub_calls = 0
        self.paths = 0
        self.notes = []
        self.sensitivity_done = False
        self.vacuity_checked = False
        self.dump = None          # conc mode: label -> out values (for translation validation)
        self.expect_outs = None   # tv mode: label -> out values of the plain run
        self.explorer = None

    def determined(self):
        """context manager: symbolic branch conditions are decided by the declared input assumptions (no forking)"""
        ctx = self

        class _Dt(object):
            def __enter__(self_d):
                if ctx.sym:
                    from . import state
                    self_d.old = state.S.explorer
                    state.S.explorer = state.AssumptionDecider(ctx.assumptions)

            def __exit__(self_d, *a):
                if ctx.sym:
                    from . import state
                    state.S.explorer = self_d.old
                return False
        return _Dt()

    # ------------------------------------------------------------------ groups
    def group(self, label):
        """obligations created inside the block are detailed (symbolic) parts of ONE claim that the concrete mode checks under
        `label`; a counterexample of a part is confirmed by a replay in which the obligation `label` fails"""
        ctx = self

        class _G(object):
            def __enter__(self_g):
                self_g.n0 = len(ctx.obligations)

            def __exit__(self_g, *a):
                for ob in ctx.obligations[self_g.n0:]:
                    if ob.group is None:
                        ob.group = label
                return False
        return _G()

    # ------------------------------------------------------------------ inputs
    def input(self, name, shape, cplx=False, lo=None, hi=None, nonzero=False):
        """array of free values.  Each call returns a fresh copy of the same symbols."""
        shape = tuple(int(s) for s in shape)
        if name not in self.cache:
            self.decl[name] = (shape, cplx)
            if self.sym:
                from .array import symarray
                import z3
                a = symarray(name, shape, cplx)
                for e in a.plain().flat:
                    if lo is not None:
                        self.assumptions.append(e.re >= lo if not isinstance(lo, tuple) else e.re > lo[0])
                    if hi is not None:
                        self.assumptions.append(e.re <= hi if not isinstance(hi, tuple) else e.re < hi[0])
                    if nonzero:
                        self.assumptions.append(e.re != 0)
                self.cache[name] = a
            else:
                if name in self.given:
                    a = _fromlist(self.given[name], shape, cplx)
                else:
                    l = -1.0 if lo is None else (lo[0] if isinstance(lo, tuple) else lo)
                    h = 1.0 if hi is None else (hi[0] if isinstance(hi, tuple) else hi)
                    if isinstance(lo, tuple) or nonzero:
                        l = l + 0.05 * (h - l)
                    a = l + (h - l) * self.rng.rand(*shape)
                    if cplx:
                        a = a + 1j * (-1 + 2 * self.rng.rand(*shape))
                self.used_inputs[name] = a
                if self.mode == 'tv':
                    from .array import asobj
                    a = asobj(a)
                    if cplx:
                        a.kind = 'c'
                self.cache[name] = a
        out = self.cache[name].copy()
        self.handed.setdefault(name, []).append(out)
        return out

    def scalar(self, name, cplx=False, lo=None, hi=None, nonzero=False):
        a = self.input(name, (1,), cplx, lo, hi, nonzero)
        if self.mode == 'conc':
            v = a[0]
            return complex(v) if cplx else float(v)
        return a.plain()[0]

    def assume(self, cond):
        if self.sym:
            self.assumptions.append(getattr(cond, 'e', cond))
        else:
            if not bool(cond):
                raise HarnessError('assumption violated by concrete inputs')

    # ------------------------------------------------------------- value helpers
    def zeros(self, shape, cplx=True):
        if self.mode == 'conc':
            return _np.zeros(shape, dtype=complex if cplx else float)
        from .array import SymArray
        return SymArray(shape, 'c' if cplx else 'f', 0)

    def lift(self, a):
        """constant array/scalar -> value usable in this mode"""
        if self.mode == 'conc':
            return a
        from .array import asobj
        from .scalar import Sc
        if _np.isscalar(a):
            return Sc.of(a)
        return asobj(a)

    def cat(self, arrays):
        """flatten and concatenate (to compare several outputs in one obligation)"""
        if self.mode == 'conc':
            return _np.concatenate([_np.asarray(a).reshape(-1) for a in arrays])
        from .array import asobj, wrap, maxkind
        xs = [asobj(a).reshape(-1) for a in arrays]
        return wrap(_np.concatenate([x.plain() for x in xs]), 'c')

    def expm(self, A):
        """matrix exponential: the same uninterpreted function (registry) the code under test sees / scipy in concrete mode"""
        if self.mode == 'conc':
            import scipy.linalg
            return scipy.linalg.expm(_np.asarray(A))
        from . import lapack
        from .array import asobj
        return lapack.policy().expm(asobj(A))

    def const_frac(self, num, den=1):
        if self.mode == 'conc':
            return num / den
        from .scalar import Sc
        return Sc(Fraction(num, den))

    @property
    def I(self):
        if self.mode == 'conc':
            return 1j
        from .scalar import Sc
        return Sc(0, 1)

    def conj(self, x):
        if hasattr(x, 'conjugate'):
            return x.conjugate()
        return x

    # -------------------------------------------------------------- obligations
    def _assum(self, extra=()):
        a = list(self.assumptions) + list(extra)
        if self.sym:
            # obligations are claimed where the divisions executed by the code are defined
            from . import state
            seen = set()
            for dnm in state.S.denoms:
                if dnm.get_id() not in seen:
                    seen.add(dnm.get_id())
                    a.append(dnm != 0)
        ex = getattr(self, 'explorer', None)
        if ex is not None:
            a += list(ex.assumes) + list(ex.pc)
        return a

    def eq(self, label, out, oracle, form='I', tol=1e-8, extra_assumptions=(), const_tol=None):
        """obligation: out == oracle entry-wise"""
        t0 = time.time()
        if _np.shape(out) != _np.shape(oracle):
            # a tolerated difference: 0-d vs scalar
            if _np.size(out) == 1 and _np.size(oracle) == 1:
                pass
            else:
                self.obligations.append(Obligation(label, 'S', 'failed', 0.0, 'shape %s vs oracle %s' % (_np.shape(out), _np.shape(oracle))))
                return False
        if self.sym:
            from . import solve, state
            from .array import asobj
            assum = self._assum(extra_assumptions)
            if _np.size(out) == 1 and _np.shape(out) != _np.shape(oracle):
                out = asobj(out).reshape(())
                oracle = asobj(oracle).reshape(())
            v = None
            if const_tol is not None:
                # float-constant residue: both sides are ground (no free symbol); claim |out - oracle| <= const_tol, decided exactly
                oa, ob_ = asobj(out), asobj(oracle)
                if all(e.is_concrete for e in oa.plain().flat) and all(e.is_concrete for e in ob_.plain().flat):
                    worst = max([abs(complex(a) - complex(b)) for a, b in zip(oa.plain().flat, ob_.plain().flat)] or [0.0])
                    v = solve.Verdict('unsat' if worst <= const_tol else 'sat', None, None, 0.0,
                                      'ground comparison within %g (max deviation %.3g)' % (const_tol, worst))
            if v is None:
                v = solve.prove_equal(out, oracle, assum, self.timeout_ms)
            ob = Obligation(label, form, v.status, time.time() - t0, note=v.note)
            if v.status == 'sat' and v.model is None:
                ob.detail = v.note
            elif v.status == 'sat':
                ob.detail = 'entry %s differs' % (v.where,)
                model = v.model
                syms = solve.free_symbols(*[self.cache[n] for n in self.cache])
                rm = None
                self._robust_used = getattr(self, '_robust_used', 0) + 1
                if v.where is not None and 'witness by evaluation' not in (v.note or '') and self._robust_used <= 3:
                    # (at most three searches for a robust counterexample per scenario run: a change that breaks many obligations at once would
                    # otherwise spend the whole task budget here; the replay also tries random inputs)
                    try:
                        rm = solve.robust_model(out, oracle, v.where, assum, syms, min(self.timeout_ms, 30000))
                        if rm is None and len(syms) <= 80:
                            # a deviation of size 1 may need large entries (e.g. a value that the code treats as zero because it is below an absolute
                            # tolerance, multiplied back up by a later factor): widen the box before settling for a model with a tiny deviation
                            rm = solve.robust_model(out, oracle, v.where, assum, syms, min(self.timeout_ms, 8000), box=10 ** 10)
                    except Exception:
                        rm = None
                if rm is not None:
                    model = rm
                    ob.note = (ob.note + ' robust-model').strip()
                ob.model_inputs = self.inputs_from_model(model)
            elif v.status == 'unsat':
                if not self.vacuity_checked and assum:
                    self.vacuity_checked = True
                    import z3
                    vv = solve.check_sat(z3.BoolVal(True), assum, self.timeout_ms, cross=False)
                    if vv.status != 'sat':
                        raise HarnessError('vacuity guard: assumptions not satisfiable (%s)' % vv.status)
                if not self.sensitivity_done and not v.note and const_tol is None:
                    self.sensitivity_done = True
                    self._sensitivity(label, out, oracle, assum)
            self.obligations.append(ob)
            return v.status == 'unsat'
        else:
            a = self._num(out)
            b = self._num(oracle)
            if self.dump is not None:
                self.dump[label] = _tolist(a.astype(complex))
            if self.expect_outs is not None and label in self.expect_outs:
                ref = _fromlist(self.expect_outs[label], a.shape, True)
                e2 = float(_np.max(_np.abs(a - ref))) if a.size else 0.0
                sc2 = max(1.0, float(_np.max(_np.abs(ref))) if ref.size else 1.0)
                self.obligations.append(Obligation('TV ' + label, 'TV', 'held' if e2 <= 1e-9 * sc2 else 'failed', 0.0,
                                                   'shimmed vs plain max abs diff %.3e' % e2))
            scale = max(1.0, float(_np.max(_np.abs(b))) if b.size else 1.0)
            err = float(_np.max(_np.abs(a.reshape(-1) - b.reshape(-1)))) if a.size else 0.0
            ok = err <= tol * scale
            self.obligations.append(Obligation(label, form, 'held' if ok else 'failed', time.time() - t0,
                                               'max abs err %.3e' % err))
            return ok

    def _sensitivity(self, label, out, oracle, assum):
        """sensitivity twin: an oracle with one entry off by one must be refuted"""
        from . import solve
        from .array import asobj
        from .scalar import Sc
        o2 = asobj(oracle).copy()
        if o2.size == 0:
            raise HarnessError('empty comparison in %s' % label)
        flat = o2.reshape(-1) if o2.ndim > 0 else o2.reshape(1)
        _np.ndarray.__setitem__(flat, 0, Sc.of(flat.plain()[0]) + Sc(1))
        v = solve.prove_equal(asobj(out).reshape(flat.shape) if asobj(out).ndim != flat.ndim or asobj(out).shape != flat.shape else out,
                              flat, assum, self.timeout_ms)
        if v.status == 'unknown':
            # the guard itself could not be decided within the budget: that says nothing about the obligation (which was decided); recorded, not fatal
            self.notes.append('sensitivity twin of %s: undecided (solver unknown)' % label)
            return
        if v.status != 'sat':
            raise HarnessError('sensitivity twin of %s not refuted (%s)' % (label, v.status))
        self.notes.append('sensitivity twin of %s: sat' % label)

    def _num(self, x):
        if hasattr(x, 'tofloat'):
            return _np.asarray(x.tofloat())
        from .scalar import Sc
        if isinstance(x, Sc):
            return _np.asarray(complex(x))
        a = _np.asarray(x)
        if a.dtype == object:
            return _np.array([complex(e) for e in a.reshape(-1)]).reshape(a.shape)
        return a

    def check(self, label, cond, form='S', detail=None):
        """boolean obligation.  cond: python bool, SymBool or z3 BoolRef (must hold for all values)"""
        t0 = time.time()
        e = getattr(cond, 'e', cond)
        if isinstance(e, (bool, _np.bool_)):
            self.obligations.append(Obligation(label, form, ('unsat' if self.sym else 'held') if e else 'failed',
                                               0.0, detail))
            return bool(e)
        if not self.sym:
            raise HarnessError('symbolic condition in concrete mode')
        import z3
        from . import solve
        v = solve.check_sat(z3.Not(e), self._assum(), self.timeout_ms)
        ob = Obligation(label, form, v.status, time.time() - t0, detail)
        if v.status == 'sat':
            ob.model_inputs = self.inputs_from_model(v.model)
        self.obligations.append(ob)
        return v.status == 'unsat'

    def fail(self, label, detail, form='S'):
        self.obligations.append(Obligation(label, form, 'failed', 0.0, detail))

    def held(self, label, detail=None, form='S'):
        self.obligations.append(Obligation(label, form, 'unsat' if self.sym else 'held', 0.0, detail))

    def inputs_from_model(self, model):
        out = {}
        for name, a in self.cache.items():
            shape, cplx = self.decl[name]
            vals = []
            for e in a.plain().flat:
                re, im = e.evaluate_exact(model)
                vals.append([float(re), float(im)] if cplx else float(re))
            out[name] = vals
        return out

    # -------------------------------------------------------------------- chain
    def chain(self, label, run_fn, spec_fn, policy_kw=None, tol=1e-8):
        """Form (II): value of run_fn() equals spec_fn() for every valid factorisation
        returned by the factorisation stubs (cut-point chain, DESIGN 1.5)."""
        if not self.sym:
            out = run_fn()
            return self.eq(label, out, spec_fn(), form='II', tol=tol)
        from . import state, lapack
        policy_kw = policy_kw or {}
        ok = True
        state.reset()
        pol = lapack.set_policy(lapack.ChainPolicy(0, 'T', **policy_kw))
        out0 = run_fn()
        K = pol.count
        ax0 = list(state.S.axioms)
        spec = spec_fn()
        ok &= self.eq(label + ' [T0 == spec]', out0, spec, form='II', extra_assumptions=ax0)
        self.stub_calls += K
        for k in range(1, K + 1):
            outs = []
            axs = []
            for which in 'AB':
                state.reset()
                state.S.run_prefix = which + '.'
                pol = lapack.set_policy(lapack.ChainPolicy(k, which, **policy_kw))
                outs.append(run_fn())
                axs.extend(state.S.axioms)
            ok &= self.eq(label + ' [cut %d/%d: A == B]' % (k, K), outs[0], outs[1], form='II', extra_assumptions=axs)
        state.reset()
        return ok

    def via(self, label, run_fn, spec_fn, through=('ortho_left', 'ortho_right'), tol=1e-8, form='I'):
        """Compositional obligation: the value computed by run_fn() equals spec_fn() when every factorisation is the
        trivial one, AND every factorisation call is issued from one of the functions in `through` (whose invariance
        under ALL valid factorisations is decided elsewhere, e.g. C03 for ortho_*).  Cheaper than the full chain."""
        if not self.sym:
            return self.eq(label, run_fn(), spec_fn(), form=form, tol=tol)
        from . import state, lapack
        state.reset()
        lapack.set_policy(lapack.TrivPolicy())
        out = run_fn()
        fac = [c for c in state.S.stub_log if c.kind in ('svd', 'qr', 'rq')]
        bad = [c.callers[:3] for c in fac if not any(t in c.callers for t in through)]
        ok = self.check(label + ': every factorisation (%d) is issued from %s' % (len(fac), '/'.join(through)), not bad, detail=repr(bad[:3]))
        self.stub_calls += len(fac)
        ax = list(state.S.axioms)
        ok &= self.eq(label, out, spec_fn(), form=form, extra_assumptions=ax)
        return ok

    # ------------------------------------------------------------------- forking
    def explore(self, label, fn, cap=256):
        """run fn() on every feasible path (symbolic branch conditions).  fn returns a value
        passed to the caller as list of (path, value).  In concrete mode: single run."""
        if not self.sym:
            return [(None, fn())]
        if getattr(self, 'explorer', None) is not None:
            # already inside an (automatic, whole-scenario) exploration: the enclosing explorer forks for this block too
            return [(None, fn())]
        from .explore import Explorer
        ex = Explorer(timeout_ms=min(self.timeout_ms, 20000), cap=cap)
        base = list(self.assumptions)

        def wrapped():
            for a in base:
                ex.assume(a)
            return fn()
        self.explorer = ex
        try:
            paths = ex.run_all(wrapped)
        finally:
            self.explorer = None
        self.paths += len(paths)
        self.notes.append('%s: %d feasible paths, %d feasibility queries (%d answered unknown -> branch explored)' % (
            label, len(paths), ex.queries, ex.unknown_feasibility))
        return [(p, p.result) for p in paths]
