"""Dense reference oracles written with explicit index loops.

They share no code with scikit_tt and work on any array of scalars (float /
complex ndarrays in concrete mode, object arrays of `Sc` in symbolic mode).
NumPy is used only for index mechanics (reshape / transpose / ndindex).
"""
import itertools

import numpy as _np


def _get(a, idx):
    if hasattr(a, 'plain'):
        return a.plain()[idx]
    return a[idx]


def _set(a, idx, v):
    if hasattr(a, 'plain'):
        _np.ndarray.__setitem__(a, idx, v)   # raw store: oracle values are not subject to dtype casts
    else:
        a[idx] = v


def tt_full(ctx, cores):
    """dense tensor of a TT: shape (m_1..m_d, n_1..n_d); entry = product of core slices"""
    d = len(cores)
    ms = [c.shape[1] for c in cores]
    ns = [c.shape[2] for c in cores]
    assert cores[0].shape[0] == 1 and cores[-1].shape[3] == 1, 'boundary ranks must be 1'
    out = ctx.zeros(tuple(ms) + tuple(ns))
    for I in itertools.product(*[range(m) for m in ms]):
        for J in itertools.product(*[range(n) for n in ns]):
            # row vector times matrices
            vec = [_get(cores[0], (0, I[0], J[0], b)) for b in range(cores[0].shape[3])]
            for k in range(1, d):
                c = cores[k]
                vec = [sum_((vec[a] * _get(c, (a, I[k], J[k], b)) for a in range(c.shape[0])), ctx) for b in range(c.shape[3])]
            _set(out, I + J, vec[0])
    return out


def tt_full_open(ctx, cores):
    """like tt_full but keeps boundary ranks: shape (r_0, m.., n.., r_d)"""
    d = len(cores)
    ms = [c.shape[1] for c in cores]
    ns = [c.shape[2] for c in cores]
    r0, rd = cores[0].shape[0], cores[-1].shape[3]
    out = ctx.zeros((r0,) + tuple(ms) + tuple(ns) + (rd,))
    for a0 in range(r0):
        for I in itertools.product(*[range(m) for m in ms]):
            for J in itertools.product(*[range(n) for n in ns]):
                vec = [_get(cores[0], (a0, I[0], J[0], b)) for b in range(cores[0].shape[3])]
                for k in range(1, d):
                    c = cores[k]
                    vec = [sum_((vec[a] * _get(c, (a, I[k], J[k], b)) for a in range(c.shape[0])), ctx) for b in range(c.shape[3])]
                for b in range(rd):
                    _set(out, (a0,) + I + J + (b,), vec[b])
    return out


def sum_(it, ctx):
    acc = None
    for x in it:
        acc = x if acc is None else acc + x
    if acc is None:
        return ctx.const_frac(0)
    return acc


def as_matrix(full, d):
    """(m.., n..) -> (prod m, prod n), first mode slowest (C order) -- the documented matricisation"""
    sh = full.shape
    m = int(_np.prod(sh[:d])) if d else 1
    n = int(_np.prod(sh[d:])) if d else 1
    return full.reshape(m, n)


def matmul(ctx, A, B):
    m, k = A.shape
    k2, n = B.shape
    assert k == k2
    out = ctx.zeros((m, n))
    for i in range(m):
        for j in range(n):
            _set(out, (i, j), sum_((_get(A, (i, l)) * _get(B, (l, j)) for l in range(k)), ctx))
    return out


def conj_t(ctx, A):
    m, n = A.shape
    out = ctx.zeros((n, m))
    for i in range(m):
        for j in range(n):
            _set(out, (j, i), ctx.conj(_get(A, (i, j))))
    return out


def transpose(ctx, A):
    m, n = A.shape
    out = ctx.zeros((n, m))
    for i in range(m):
        for j in range(n):
            _set(out, (j, i), _get(A, (i, j)))
    return out


def kron(ctx, A, B):
    m, n = A.shape
    p, q = B.shape
    out = ctx.zeros((m * p, n * q))
    for i in range(m):
        for j in range(n):
            for k in range(p):
                for l in range(q):
                    _set(out, (i * p + k, j * q + l), _get(A, (i, j)) * _get(B, (k, l)))
    return out


def eye(ctx, n):
    out = ctx.zeros((n, n))
    for i in range(n):
        _set(out, (i, i), ctx.const_frac(1))
    return out


def elementwise(ctx, f, *arrays):
    out = ctx.zeros(arrays[0].shape)
    for idx in _np.ndindex(*arrays[0].shape):
        _set(out, idx, f(*[_get(a, idx) for a in arrays]))
    return out


def scale(ctx, c, A):
    return elementwise(ctx, lambda x: c * x, A)


def add(ctx, A, B):
    return elementwise(ctx, lambda x, y: x + y, A, B)


def sub(ctx, A, B):
    return elementwise(ctx, lambda x, y: x - y, A, B)


def frob2(ctx, A):
    """sum |a|^2 (real)"""
    acc = ctx.const_frac(0)
    for idx in _np.ndindex(*A.shape):
        e = _get(A, idx)
        t = e * ctx.conj(e)
        acc = acc + (t.real if hasattr(t, 'real') else t)
    return acc


def tensordot_dense(ctx, A, axesA, B, axesB):
    """index-loop tensordot: result modes = free modes of A (in order) then free modes of B"""
    fa = [i for i in range(A.ndim) if i not in axesA]
    fb = [i for i in range(B.ndim) if i not in axesB]
    csh = [A.shape[i] for i in axesA]
    assert csh == [B.shape[i] for i in axesB]
    out = ctx.zeros(tuple(A.shape[i] for i in fa) + tuple(B.shape[i] for i in fb))
    for ia in itertools.product(*[range(A.shape[i]) for i in fa]):
        for ib in itertools.product(*[range(B.shape[i]) for i in fb]):
            def term(c):
                ai = [0] * A.ndim
                bi = [0] * B.ndim
                for p, i in zip(fa, ia):
                    ai[p] = i
                for p, i in zip(fb, ib):
                    bi[p] = i
                for p, q, v in zip(axesA, axesB, c):
                    ai[p] = v
                    bi[q] = v
                return _get(A, tuple(ai)) * _get(B, tuple(bi))
            _set(out, ia + ib, sum_((term(c) for c in itertools.product(*[range(k) for k in csh])), ctx))
    return out
