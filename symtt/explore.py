"""Forking path explorer: depth-first re-execution with decision prefixes.

`bool(SymBool)` calls `Explorer.decide`.  A branch is taken only when
path_condition /\ assumptions /\ branch is satisfiable.  `unknown` from the solver
makes the whole exploration inconclusive (never a pass).
"""
import time

import z3

from . import state


class Abort(BaseException):
    """infeasible prefix (BaseException so that bare `except Exception` in the code under test does not swallow it)"""


class Inconclusive(Exception):
    pass


class Path(object):
    def __init__(self, decisions, pc, assumes, result):
        self.decisions = decisions
        self.pc = pc
        self.assumes = assumes
        self.result = result


class Explorer(object):
    def __init__(self, timeout_ms=20000, cap=256):
        self.prefix = []
        self.pos = 0
        self.pc = []
        self.assumes = []
        self.queries = 0
        self.solver_s = 0.0
        self.timeout_ms = timeout_ms
        self.cap = cap
        self.check_last = False
        self.decided = {}
        self._keep = []
        self.unknown_feasibility = 0
        self.path_unknown = 0

    def assume(self, e):
        self.assumes.append(e)

    def _sat(self, extra):
        s = z3.Solver()
        s.set('timeout', self.timeout_ms)
        s.add(*self.assumes)
        s.add(*self.pc)
        s.add(*state.S.axioms)          # side conditions of algebraic symbols / stub contracts created so far on this path
        s.add(extra)
        t = time.time()
        r = str(s.check())
        self.solver_s += time.time() - t
        self.queries += 1
        if r == 'unknown' and not state.S.trans:
            # second opinion from the nlsat tactic (no uninterpreted functions in play): decides most products of a symbol with its reciprocal
            try:
                s2 = z3.Then('simplify', 'purify-arith', 'qfnra-nlsat').solver()
                s2.set('timeout', self.timeout_ms)
                s2.add(*self.assumes)
                s2.add(*self.pc)
                s2.add(*state.S.axioms)
                s2.add(extra)
                t = time.time()
                r2 = str(s2.check())
                self.solver_s += time.time() - t
                if r2 in ('sat', 'unsat'):
                    r = r2
            except Exception:
                pass
        if r == 'unknown':
            self.path_unknown += 1
            # over-approximation: explore the branch.  Obligations on the path are implications from the path
            # condition, so an infeasible path can only make them vacuous, never wrong.
            self.unknown_feasibility += 1
            return True
        return r == 'sat'

    def _infeasible(self):
        for tac in (None, ('simplify', 'purify-arith', 'qfnra-nlsat')):
            try:
                s = z3.Solver() if tac is None else z3.Then(*tac).solver()
                s.set('timeout', 4 * self.timeout_ms)
                s.add(*self.assumes)
                s.add(*self.pc)
                s.add(*state.S.axioms)
                if str(s.check()) == 'unsat':
                    return True
            except Exception:
                pass
        return False

    def decide(self, cond):
        cond = z3.simplify(cond)
        if z3.is_true(cond):
            return True
        if z3.is_false(cond):
            return False
        # a condition already decided on this path (or its negation) is not a new fork
        cid = cond.get_id()
        if cid in self.decided:
            return self.decided[cid]
        if z3.is_not(cond) and cond.arg(0).get_id() in self.decided:
            return not self.decided[cond.arg(0).get_id()]
        if self.pos < len(self.prefix):
            b = self.prefix[self.pos]
            if self.pos == len(self.prefix) - 1 and self.check_last:
                self.check_last = False
                if not self._sat(cond if b else z3.Not(cond)):
                    raise Abort()
        else:
            b = None
            for cand in (True, False):
                if self._sat(cond if cand else z3.Not(cond)):
                    b = cand
                    break
            if b is None:
                raise Abort()
            self.prefix.append(b)
        self.pos += 1
        self.pc.append(cond if b else z3.Not(cond))
        self.decided[cid] = b
        self._keep.append(cond)
        return b

    def run_all(self, fn):
        """fn() is re-executed once per feasible path; returns list of Path"""
        results = []
        self.prefix = []
        while True:
            self.pos = 0
            self.pc = []
            self.assumes = []
            self.decided = {}
            self._keep = []
            state.reset()
            state.S.explorer = self
            self.path_unknown = 0
            try:
                r = fn()
                results.append(Path(list(self.prefix[:self.pos]), list(self.pc), list(self.assumes), r))
            except Abort:
                pass
            except Exception:
                # an exception on a path that was entered although its feasibility could not be decided: if the path condition is in fact
                # unsatisfiable the path does not exist (e.g. "no singular value passes the relative cut") -- otherwise it is the code's exception
                if not (self.path_unknown and self._infeasible()):
                    raise
            finally:
                state.S.explorer = None
            if len(results) > self.cap:
                raise Inconclusive('path cap %d exceeded' % self.cap)
            self.prefix = self.prefix[:self.pos] if self.pos <= len(self.prefix) else self.prefix
            while self.prefix and self.prefix[-1] is False:
                self.prefix.pop()
            if not self.prefix:
                break
            self.prefix[-1] = False
            self.check_last = True
        return results
