"""Environment stubs: LAPACK / ARPACK / expm / random numbers / constants.

Every call is answered by the active *policy* (`state.S.policy`) and appended
to `state.S.stub_log`.  Policies:

* `FreePolicy`      fresh unconstrained symbols of the right shape for every result
                    (a superset of anything LAPACK can return); the contract is
                    recorded with the call so that a harness can use it.
* `TrivPolicy`      factorisations answer the *trivial factorisation* (I,1,M)/(M,1,I).
* `ChainPolicy`     the cut-point chain of DESIGN 1.5 (II).
* `ConcretePolicy`  delegate to the real SciPy/NumPy routine on floats
                    (translation validation of the shim, and replay).

Factorisation-type calls (svd / qr / rq) all go through `policy.factor(kind, a)`
returning (P (m x k), d (k,), W (k x n)) with  a = P diag(d) W.
"""
from fractions import Fraction

import numpy as _np
import z3

from . import state
from .scalar import Sc, sym, zterm
from .array import SymArray, asobj, wrap, symarray, dot as _dot, kind_of, maxkind, _vec


class StubCall(object):
    def __init__(self, kind, **kw):
        self.kind = kind
        self.__dict__.update(kw)

    def __repr__(self):
        return 'StubCall(%s)' % self.kind


def _callers():
    """names of the /repo functions on the call stack (innermost first)"""
    import sys
    from .loader import REPO
    out = []
    f = sys._getframe(2)
    while f is not None:
        fn = f.f_code.co_filename
        if fn.startswith(REPO):
            out.append(f.f_code.co_name)
        f = f.f_back
    return out


def _log(kind, **kw):
    c = StubCall(kind, index=len(state.S.stub_log), callers=_callers(), **kw)
    state.S.stub_log.append(c)
    return c


def ident(n, m=None):
    return asobj(_np.eye(n, m))


def ones_vec(k):
    return asobj(_np.ones(k))


def triv(a):
    """trivial factorisation: same shapes as a thin SVD, product == a, no hypotheses"""
    m, n = a.shape
    if m <= n:
        return ident(m), ones_vec(m), a.copy()
    return a.copy(), ones_vec(n), ident(n)


def diagmul(P, d, W):
    """P diag(d) W"""
    k = d.shape[0]
    Pd = P * d.reshape(1, k)
    return _dot(Pd, W)


# ----------------------------------------------------------------------- policies
class FreePolicy(object):
    """fresh symbols everywhere; spectrum contract of the SVD optionally assumed"""
    name = 'free'
    assume_sorted_spectrum = True      # s0 >= s1 >= ... >= 0 goes into the axioms
    positive_spectrum = False          # additionally s_last > 0 (needed when the code divides by s)
    real_spectrum = False              # eig/eigs of Hermitian pencils: eigenvalues are real (stored in a complex array)
    model_overwrite = False            # C06: havoc F-contiguous inputs of overwrite_a=True calls
    overwrite_table = None

    def __init__(self, **kw):
        self.__dict__.update(kw)

    # -- factorisations ------------------------------------------------------
    def factor(self, kind, a):
        m, n = a.shape
        k = min(m, n)
        cplx = a.kind == 'c'
        tag = state.fresh({'svd': 'F', 'qr': 'Q', 'rq': 'R'}[kind])
        if kind == 'svd':
            P = symarray(tag + '.U', (m, k), cplx)
            d = symarray(tag + '.s', (k,), False)
            W = symarray(tag + '.V', (k, n), cplx)
            if self.assume_sorted_spectrum:
                dp = d.plain()
                for i in range(k):
                    state.assume(dp[i].re >= 0)
                for i in range(k - 1):
                    state.assume(dp[i].re >= dp[i + 1].re)
                if self.positive_spectrum == 'first' and k > 0:
                    state.assume(dp[0].re > 0)
                elif self.positive_spectrum and k > 0:
                    state.assume(dp[k - 1].re > 0)
        elif kind == 'qr':
            P = symarray(tag + '.Q', (m, k), cplx)
            d = ones_vec(k)
            W = symarray(tag + '.R', (k, n), cplx)
        else:
            P = symarray(tag + '.R', (m, k), cplx)
            d = ones_vec(k)
            W = symarray(tag + '.Q', (k, n), cplx)
        return P, d, W

    # -- linear solves -------------------------------------------------------
    def solve(self, A, b):
        tag = state.fresh('X')
        cplx = maxkind(A, b) == 'c'
        return symarray(tag, b.shape, cplx)

    def lstsq(self, A, b, cond=None):
        tag = state.fresh('LS')
        cplx = maxkind(A, b) == 'c'
        shape = (A.shape[1],) + tuple(b.shape[1:])
        return symarray(tag, shape, cplx)

    def inv(self, A):
        tag = state.fresh('INV')
        return symarray(tag, A.shape, A.kind == 'c')

    def eig(self, A, B=None, hermitian=False, k=None):
        n = A.shape[0]
        kk = n if k is None else k
        tag = state.fresh('EIG')
        cplx = (not hermitian) or maxkind(A, B if B is not None else A) == 'c'
        lam = symarray(tag + '.w', (kk,), cplx and not hermitian and not self.real_spectrum)
        if not hermitian:
            lam.kind = 'c'
        V = symarray(tag + '.v', (n, kk), cplx if not self.real_spectrum else maxkind(A, B if B is not None else A) == 'c')
        if not hermitian:
            V.kind = 'c' 
        if hermitian:
            lp = lam.plain()
            for i in range(kk - 1):
                state.assume(lp[i].re <= lp[i + 1].re)
        return lam, V

    def cond(self, A):
        c = Sc(z3.Real(state.fresh('cond')))
        state.assume(c.re >= 1)
        return c

    # -- matrix exponential --------------------------------------------------
    def expm(self, A):
        reg = state.S.__dict__.setdefault('expm_registry', [])
        from .solve import arrays_equivalent
        for (B, E) in reg:
            if B.shape == A.shape and arrays_equivalent(A, B):
                return E
        E = symarray(state.fresh('E'), A.shape, True if A.kind == 'c' else False)
        reg.append((A.copy(), E))
        return E

    def expm_multiply(self, A, v):
        E = self.expm(A)
        return _dot(E, v)

    # -- scalars -------------------------------------------------------------
    def norm(self, v):
        p = asobj(v).plain()
        acc = Sc(0)
        for e in p.flat:
            e = Sc.of(e)
            acc = acc + (e * e.conjugate()).real
        return acc.sqrt()

    def rand(self, shape):
        tag = state.fresh('u')
        if shape == ():
            s = sym(tag)
            state.assume(s.re >= 0)
            state.assume(s.re < 1)
            return s
        a = symarray(tag, shape, False)
        for e in a.plain().flat:
            state.assume(e.re >= 0)
            state.assume(e.re < 1)
        return a

    def choice(self, n, p=None):
        raise NotImplementedError('random.choice')


class TrivPolicy(FreePolicy):
    name = 'triv'

    def factor(self, kind, a):
        return triv(a)


class ChainPolicy(FreePolicy):
    """cut-point chain.  k = index (1-based) of the cut call, which in {'A','B'}.

    calls < k : havoc (fresh unconstrained factors)
    call  = k : 'A' -> fresh free (U,S,V) ignoring the argument
                'B' -> triv(U S V) with the *same* symbols
    calls > k : triv(actual argument)
    k = 0     : every call trivial (run T0)
    """
    name = 'chain'
    assume_sorted_spectrum = False

    def __init__(self, k, which, **kw):
        FreePolicy.__init__(self, **kw)
        self.k = k
        self.which = which
        self.count = 0

    def factor(self, kind, a):
        self.count += 1
        c = self.count
        m, n = a.shape
        kk = min(m, n)
        cplx = a.kind == 'c'
        if self.k == 0 or c > self.k:
            return triv(a)
        if c < self.k:
            tag = 'H%d' % c
            return (symarray(tag + '.U', (m, kk), cplx), symarray(tag + '.s', (kk,), False) if kind == 'svd' else ones_vec(kk),
                    symarray(tag + '.V', (kk, n), cplx))
        U = symarray('CUT.U', (m, kk), cplx)
        s = symarray('CUT.s', (kk,), False) if kind == 'svd' else ones_vec(kk)
        V = symarray('CUT.V', (kk, n), cplx)
        if self.which == 'A':
            return U, s, V
        return triv(diagmul(U, s, V))


class ConcretePolicy(FreePolicy):
    """real LAPACK on floats (inputs must be concrete)"""
    name = 'concrete'

    def factor(self, kind, a):
        import scipy.linalg as sl
        x = a.tofloat()
        if kind == 'svd':
            u, s, v = sl.svd(x, full_matrices=False, lapack_driver='gesvd')
            return asobj(u), asobj(s), asobj(v)
        if kind == 'qr':
            q, r = sl.qr(x, mode='economic')
            return asobj(q), ones_vec(q.shape[1]), asobj(r)
        r, q = sl.rq(x, mode='economic')
        return asobj(r), ones_vec(r.shape[1]), asobj(q)

    def solve(self, A, b):
        return asobj(_np.linalg.solve(A.tofloat(), b.tofloat()))

    def lstsq(self, A, b, cond=None):
        import scipy.linalg as sl
        return asobj(sl.lstsq(A.tofloat(), b.tofloat(), cond=cond, lapack_driver='gelss')[0])

    def inv(self, A):
        return asobj(_np.linalg.inv(A.tofloat()))

    def eig(self, A, B=None, hermitian=False, k=None):
        import scipy.linalg as sl
        if hermitian:
            n_ = A.shape[0]
            # the same LAPACK call as the code under test (driver and subset decide the signs of the eigenvectors)
            w, v = sl.eigh(A.tofloat(), b=None if B is None else B.tofloat(), check_finite=False,
                           **({} if k is None else {'subset_by_index': (n_ - k, n_ - 1)}))
        else:
            w, v = sl.eig(A.tofloat(), b=None if B is None else B.tofloat())
        return asobj(w), asobj(v)

    def cond(self, A):
        return Sc(float(_np.linalg.cond(A.tofloat())))

    def expm(self, A):
        import scipy.linalg as sl
        return asobj(sl.expm(A.tofloat()))

    def expm_multiply(self, A, v):
        from scipy.sparse.linalg import expm_multiply as em
        return asobj(em(A.tofloat(), v.tofloat()))

    def norm(self, v):
        return Sc(float(_np.linalg.norm(asobj(v).tofloat())))

    def rand(self, shape):
        rng = state.S.__dict__.setdefault('rng', _np.random.RandomState(12345))
        if shape == ():
            return Sc(float(rng.rand()))
        return asobj(rng.rand(*shape))


def policy():
    p = getattr(state.S, 'policy', None)
    if p is None:
        p = state.S.policy = FreePolicy()
    return p


def set_policy(p):
    state.S.policy = p
    return p


# ----------------------------------------------------------------- in-place model
def _layout(a):
    if a.flags.f_contiguous and a.flags.c_contiguous:
        return 'CF'
    if a.flags.f_contiguous:
        return 'F'
    return 'C' if a.flags.c_contiguous else 'N'


def calibrate_overwrite():
    """run the REAL scipy routines with overwrite flags on float arrays of every (layout, dtype, size class) and
    record whether the input buffer changed.  The in-place model below uses this measured table."""
    import scipy.linalg as sl
    rng = _np.random.RandomState(7)
    tab = {}
    fns = {
        'svd': lambda x: sl.svd(x, full_matrices=False, overwrite_a=True, check_finite=False),
        'qr': lambda x: sl.qr(x, overwrite_a=True, mode='economic', check_finite=False),
        'rq': lambda x: sl.rq(x, overwrite_a=True, mode='economic', check_finite=False),
        'solve_a': lambda x: sl.solve(x, _np.ones((x.shape[0], 1), dtype=x.dtype), overwrite_a=True, overwrite_b=True, check_finite=False),
        'lu_factor': lambda x: sl.lu_factor(x, overwrite_a=True, check_finite=False),
        'eig': lambda x: sl.eig(x, overwrite_a=True, check_finite=False),
        'eigh': lambda x: sl.eigh(x, overwrite_a=True, check_finite=False),
    }
    for cplx in (False, True):
        for (m, n) in ((3, 1), (1, 3), (3, 2), (2, 3), (2, 2), (1, 1)):
            for order in ('C', 'F'):
                base = rng.rand(m, n) + (1j * rng.rand(m, n) if cplx else 0) + (2 * _np.eye(m, n))
                for what, fn in fns.items():
                    if what in ('solve_a', 'lu_factor', 'eig', 'eigh') and m != n:
                        continue
                    x = base
                    if what == 'eigh':
                        x = base + base.conj().T
                    x = _np.array(x, order=order)
                    x0 = x.copy()
                    try:
                        fn(x)
                    except Exception:
                        continue
                    key = (what, _layout(x), cplx, m == 1 and n == 1 if what in ('solve_a', 'lu_factor', 'eig', 'eigh') else False)
                    tab[key] = tab.get(key, False) or (not _np.array_equal(x, x0))
    return tab


def _maybe_overwrite(a_orig, flag, what):
    """SciPy hands an F-contiguous float/complex buffer straight to LAPACK when
    overwrite_a=True; the buffer then holds junk.  Model: havoc in place (measured table)."""
    p = policy()
    if not (flag and p.model_overwrite):
        return
    if not isinstance(a_orig, SymArray) or a_orig.ndim != 2:
        return
    tab = p.overwrite_table or {}
    lay = _layout(a_orig)
    one = (a_orig.shape == (1, 1)) if what in ('solve_a', 'lu_factor', 'eig', 'eigh') else False
    default = lay in ('F', 'CF') and not one
    base = {'solve_b': 'solve_a', 'lu_solve_b': 'solve_a'}.get(what, what)
    if not tab.get((base, lay, a_orig.kind == 'c', one), default):
        return
    junk = symarray(state.fresh('JUNK'), a_orig.shape, a_orig.kind == 'c')
    _np.ndarray.__setitem__(a_orig, Ellipsis, junk.plain())
    state.S.events.append('in-place LAPACK havoc of a %s-contiguous %s buffer (%s)' % (lay, a_orig.shape, what))


# --------------------------------------------------------------- scipy.linalg API
def svd(a, full_matrices=True, compute_uv=True, overwrite_a=False, check_finite=True, lapack_driver='gesdd'):
    a0 = a
    a = asobj(a)
    if a.ndim != 2:
        raise ValueError('svd expects a matrix')
    P, d, W = policy().factor('svd', a)
    call = _log('svd', a=a.copy(), U=P, s=d, Vh=W, contract=['U diag(s) Vh = a', 'U^H U = I', 'Vh Vh^H = I', 's sorted >= 0'])
    _maybe_overwrite(a0, overwrite_a, 'svd')
    if full_matrices and a.shape[0] != a.shape[1]:
        # full SVD: thin factors completed by fresh orthogonal-complement blocks (contract: U, Vh unitary)
        m, n = a.shape
        k = min(m, n)
        cplx = a.kind == 'c'
        if isinstance(policy(), ConcretePolicy):
            import scipy.linalg as sl
            u, s_, v = sl.svd(a.tofloat(), full_matrices=True, lapack_driver='gesvd')
            P, d, W = asobj(u), asobj(s_), asobj(v)
        else:
            if m > k:
                comp = symarray(state.fresh('Uperp'), (m, m - k), cplx)
                P = wrap(_np.concatenate([P.plain(), comp.plain()], axis=1), P.kind)
            if n > k:
                comp = symarray(state.fresh('Vperp'), (n - k, n), cplx)
                W = wrap(_np.concatenate([W.plain(), comp.plain()], axis=0), W.kind)
        call.U_full, call.Vh_full = P, W
    return P, d, W


def qr(a, overwrite_a=False, lwork=None, mode='full', pivoting=False, check_finite=True):
    if mode != 'economic':
        a_ = asobj(a)
        if a_.shape[0] < a_.shape[1] or (mode == 'full' and a_.shape[0] != a_.shape[1]):
            if mode == 'full' and a_.shape[0] > a_.shape[1]:
                raise NotImplementedError('full qr of tall matrix')
    if pivoting:
        raise NotImplementedError('pivoted qr (data-dependent permutation)')
    a0 = a
    a = asobj(a)
    P, d, W = policy().factor('qr', a)
    _log('qr', a=a.copy(), Q=P, R=W, contract=['Q R = a', 'Q^H Q = I'])
    _maybe_overwrite(a0, overwrite_a, 'qr')
    return P, W


def rq(a, overwrite_a=False, lwork=None, mode='full', check_finite=True):
    a0 = a
    a = asobj(a)
    if mode != 'economic' and a.shape[0] != a.shape[1]:
        raise NotImplementedError('full rq of non-square matrix')
    P, d, W = policy().factor('rq', a)
    _log('rq', a=a.copy(), R=P, Q=W, contract=['R Q = a', 'Q Q^H = I'])
    _maybe_overwrite(a0, overwrite_a, 'rq')
    return P, W


def solve(A, b, overwrite_a=False, overwrite_b=False, check_finite=True, assume_a='gen', **kw):
    A0, b0 = A, b
    A = asobj(A)
    b = asobj(b)
    x = policy().solve(A, b)
    _log('solve', A=A.copy(), b=b.copy(), x=x, x0=x.copy(), contract=['A x = b', 'A nonsingular'])
    _maybe_overwrite(A0, overwrite_a, 'solve_a')
    _maybe_overwrite(b0, overwrite_b, 'solve_b')
    return x


def _conj_t(A):
    from .npshim import shim
    return asobj(shim.conj(asobj(A))).T.copy()


def lu_factor(A, overwrite_a=False, check_finite=True):
    A0 = A
    A = asobj(A)
    res = ('LU', A.copy())
    _maybe_overwrite(A0, overwrite_a, 'lu_factor')
    return res


def lu_solve(lu, b, trans=0, overwrite_b=False, check_finite=True):
    assert lu[0] == 'LU' and trans in (0, 1, 2)
    b0 = b
    b = asobj(b)
    Aeff = lu[1] if trans == 0 else (lu[1].T.copy() if trans == 1 else _conj_t(lu[1]))        # trans: 0 A x = b, 1 A^T x = b, 2 A^H x = b
    x = policy().solve(Aeff, b)
    _log('solve', A=Aeff, b=b.copy(), x=x, contract=['A x = b', 'A nonsingular'], via='lu', trans=trans)
    _maybe_overwrite(b0, overwrite_b, 'lu_solve_b')
    return x


def lstsq(A, b, cond=None, overwrite_a=False, overwrite_b=False, check_finite=True, lapack_driver=None):
    A = asobj(A)
    b = asobj(b)
    x = policy().lstsq(A, b, cond)
    _log('lstsq', A=A.copy(), b=b.copy(), x=x, cond=cond, contract=['A^H A x = A^H b (cond -> 0)'])
    k = min(A.shape)
    return x, None, k, None


def eig(A, b=None, left=False, right=True, overwrite_a=False, overwrite_b=False, check_finite=True, **kw):
    A0 = A
    A = asobj(A)
    B = None if b is None else asobj(b)
    lam, V = policy().eig(A, B, hermitian=False)
    _log('eig', A=A.copy(), B=None if B is None else B.copy(), w=lam, v=V, contract=['A V = B V diag(w)'])
    _maybe_overwrite(A0, overwrite_a, 'eig')
    return lam, V


def eigh(A, b=None, overwrite_a=False, overwrite_b=False, check_finite=True, subset_by_index=None, **kw):
    A0 = A
    A = asobj(A)
    B = None if b is None else asobj(b)
    kk = None
    if subset_by_index is not None:
        lo, hi = subset_by_index
        kk = int(hi) - int(lo) + 1
        if int(hi) != A.shape[0] - 1:
            raise NotImplementedError('eigh subset not ending at the largest eigenvalue')
    lam, V = policy().eig(A, B, hermitian=True, k=kk)
    _log('eigh', A=A.copy(), B=None if B is None else B.copy(), w=lam, v=V,
         subset=subset_by_index, contract=['A V = B V diag(w)', 'w real ascending (the largest k if a subset is requested)', 'V^H B V = I'])
    _maybe_overwrite(A0, overwrite_a, 'eigh')
    return lam, V


def eigs(A, k=6, M=None, sigma=None, v0=None, **kw):
    A = asobj(A)
    B = None if M is None else asobj(M)
    if isinstance(policy(), ConcretePolicy):
        # translation validation: the real ARPACK call (k eigenvalues nearest sigma)
        from scipy.sparse.linalg import eigs as _eigs
        w, v = _eigs(A.tofloat(), k=k, M=None if B is None else B.tofloat(), sigma=None if sigma is None else complex(Sc.of(sigma)).real,
                     v0=None if v0 is None else _np.asarray(asobj(v0).tofloat(), dtype=float))
        lam, V = asobj(w), asobj(v)
        _log('eigs', A=A.copy(), B=None if B is None else B.copy(), w=lam, v=V, sigma=sigma, contract=['A V = B V diag(w)'])
        return lam, V
    lam, V = policy().eig(A, B, hermitian=False, k=k)
    _log('eigs', A=A.copy(), B=None if B is None else B.copy(), w=lam, v=V, sigma=sigma, contract=['A V = B V diag(w)'])
    return lam, V


def expm(A):
    A = asobj(A)
    E = policy().expm(A)
    _log('expm', A=A.copy(), E=E, contract=['function of its argument'])
    return E


def expm_multiply(A, v, **kw):
    A = asobj(A)
    v = asobj(v)
    r = policy().expm_multiply(A, v)
    _log('expm_multiply', A=A.copy(), v=v.copy(), r=r, r0=r.copy(), contract=['expm(A) v'])
    return r


def inv(A, **kw):
    A = asobj(A)
    X = policy().inv(A)
    _log('inv', A=A.copy(), X=X, contract=['A X = I = X A'])
    return X


# ------------------------------------------------------------------ np.linalg API
def np_linalg_svd(a, full_matrices=True, compute_uv=True, hermitian=False):
    return svd(a, full_matrices=full_matrices)


def np_linalg_norm(v, ord=None, axis=None):
    if ord not in (None, 2, 'fro') or axis is not None:
        raise NotImplementedError('norm ord=%r axis=%r' % (ord, axis))
    if isinstance(v, Sc):
        return abs(v)
    r = policy().norm(v)
    _log('norm', v=asobj(v).copy(), r=r, contract=['r >= 0', 'r^2 = sum |v_i|^2'])
    return r


def np_linalg_solve(A, b):
    return solve(A, b)


def np_linalg_inv(A):
    return inv(A)


def np_linalg_eig(A):
    return eig(A)


def np_linalg_cond(A, p=None):
    A = asobj(A)
    c = policy().cond(A)
    _log('cond', A=A.copy(), r=c, contract=['r >= 1'])
    return c


def np_linalg_matrix_power(A, n):
    A = asobj(A)
    r = ident(A.shape[0])
    for _ in range(int(n)):
        r = _dot(r, A)
    return r


def random_rand(*shape):
    r = policy().rand(tuple(int(s) for s in shape))
    _log('rand', shape=shape, r=r, contract=['0 <= r < 1'])
    return r


def random_choice(a, size=None, replace=True, p=None):
    r = policy().choice(a, p)
    _log('choice', r=r)
    return r


def const_pi():
    c = getattr(state.S, 'pi', None)
    if c is None:
        c = state.S.pi = Sc(z3.Real('pi'))
        state.S.axioms.append(c.re > 3)
        state.S.axioms.append(c.re < 4)
    return c


# ----------------------------------------------------------- namespace objects
class _NS(object):
    def __init__(self, name, **kw):
        self._name = name
        self.__dict__.update(kw)

    def __getattr__(self, n):
        raise AttributeError('lapack shim: %s.%s not modelled' % (self._name, n))


scipy_linalg = _NS('scipy.linalg', svd=svd, qr=qr, rq=rq, solve=solve, lu_factor=lu_factor, lu_solve=lu_solve,
                   lstsq=lstsq, eig=eig, eigh=eigh, expm=expm, inv=inv)
scipy_sparse_linalg = _NS('scipy.sparse.linalg', eigs=eigs, expm_multiply=expm_multiply)
scipy_sparse = _NS('scipy.sparse', linalg=scipy_sparse_linalg)
scipy_ns = _NS('scipy', linalg=scipy_linalg, sparse=scipy_sparse)
