"""Import the real scikit_tt modules from /repo's working tree and rebind the
names through which they reach their environment (numpy, LAPACK, expm, clock).

No file under /repo is edited; the encoding is regenerated from the current
source on every run (fresh interpreter, no bytecode cache).
"""
import builtins
import importlib
import os
import sys
import types

import numpy as _np

REPO = os.environ.get('VERIF_REPO', '/repo')

MODULES = {
    'utl': 'scikit_tt.utils',
    'tt': 'scikit_tt.tensor_train',
    'slim': 'scikit_tt.slim',
    'models': 'scikit_tt.models',
    'qc': 'scikit_tt.quantum_computation',
    'sle': 'scikit_tt.solvers.sle',
    'evp': 'scikit_tt.solvers.evp',
    'ode': 'scikit_tt.solvers.ode',
    'transform': 'scikit_tt.data_driven.transform',
    'regression': 'scikit_tt.data_driven.regression',
    'tdmd': 'scikit_tt.data_driven.tdmd',
    'tedmd': 'scikit_tt.data_driven.tedmd',
    'tgedmd': 'scikit_tt.data_driven.tgedmd',
    'ulam': 'scikit_tt.data_driven.ulam',
}


class Repo(object):
    """attribute access to the loaded modules: R.tt, R.sle, ...  plus R.TT"""
    shimmed = False


def _prepare():
    sys.dont_write_bytecode = True
    if sys.path[0] != REPO:
        sys.path.insert(0, REPO)
    if 'matplotlib' not in sys.modules:
        try:
            import matplotlib  # noqa
        except Exception:
            m = types.ModuleType('matplotlib')
            p = types.ModuleType('matplotlib.pyplot')
            m.pyplot = p
            sys.modules['matplotlib'] = m
            sys.modules['matplotlib.pyplot'] = p


_loaded = {}


def load(shimmed=True, only=None):
    key = bool(shimmed)
    if key in _loaded:
        return _loaded[key]
    if _loaded:
        raise RuntimeError('one process loads scikit_tt either shimmed or plain, not both')
    _prepare()
    R = Repo()
    R.shimmed = shimmed
    R.errors = {}
    for short, name in MODULES.items():
        try:
            mod = importlib.import_module(name)
        except Exception as e:  # a module that fails to import is reported by the harness that needs it
            R.errors[short] = repr(e)
            mod = None
        setattr(R, short, mod)
    if R.tt is not None:
        R.TT = R.tt.TT
        f = os.path.realpath(R.tt.__file__)
        if not f.startswith(os.path.realpath(REPO) + os.sep):
            raise RuntimeError('scikit_tt imported from %s, not from %s' % (f, REPO))
    if shimmed:
        _patch(R)
    _loaded[key] = R
    return R


def sym_isinstance(obj, cls):
    from .scalar import Sc
    if type(obj) is Sc:
        classes = cls if type(cls) is tuple else (cls,)
        flat = []
        for c in classes:
            flat.extend(c if type(c) is tuple else (c,))
        if Sc in flat:
            return True
        if obj.is_real:
            return any(c in (float, _np.floating, _np.float64, _np.float32) for c in flat)
        return any(c in (complex, _np.complexfloating, _np.complex128) for c in flat)
    return builtins.isinstance(obj, cls)


def _const_clock():
    return 0.0


def _patch(R):
    from .npshim import shim
    from . import lapack
    timestub = types.SimpleNamespace(time=_const_clock)
    for short in MODULES:
        mod = getattr(R, short)
        if mod is None:
            continue
        g = mod.__dict__
        if 'np' in g:
            g['np'] = shim
        for nm in ('linalg', 'lin', 'splin'):
            if nm in g:
                real = g[nm]
                rn = getattr(real, '__name__', '')
                g[nm] = lapack.scipy_sparse_linalg if 'sparse' in rn else lapack.scipy_linalg
        for nm in ('sp', 'scipy'):
            if nm in g:
                g[nm] = lapack.scipy_ns
        if 'expm_multiply' in g:
            g['expm_multiply'] = lapack.expm_multiply
        if '_time' in g:
            g['_time'] = timestub
        if 'time' in g and isinstance(g['time'], types.ModuleType):
            g['time'] = timestub
        g['isinstance'] = sym_isinstance
    # transform.py: scipy.special.legendre(n) evaluates through a compiled ufunc (eval_legendre); model it by the polynomial with
    # SciPy's own coefficient vector (np.poly1d: Horner evaluation works on symbolic arguments, .deriv is the same method)
    if R.transform is not None and 'legendre' in R.transform.__dict__:
        real_legendre = R.transform.__dict__['legendre']

        class PolyModel(object):
            """polynomial with SciPy's coefficient vector; Horner evaluation on any scalar/array type"""

            def __init__(self, coeffs):
                self.coeffs = list(coeffs)

            def __call__(self, x):
                y = 0 * x
                for c in self.coeffs:
                    y = y * x + c
                return y

            def deriv(self, m=1):
                p = _np.poly1d(_np.asarray(self.coeffs, dtype=float)) if all(isinstance(c, (float, int, _np.floating)) for c in self.coeffs) else None
                if p is not None:
                    return PolyModel(list(p.deriv(m).coeffs))     # numpy's own polyder (float arithmetic), as in production
                cs = self.coeffs
                for _ in range(m):
                    n_ = len(cs) - 1
                    cs = [c * (n_ - i) for i, c in enumerate(cs[:-1])] or [0.0]
                return PolyModel(cs)

            def __mul__(self, s):
                return PolyModel([c * s for c in self.coeffs])
            __rmul__ = __mul__

        def legendre_model(n, *a, **k):
            return PolyModel([float(c) for c in real_legendre(n, *a, **k).coeffs])
        R.transform.__dict__['legendre'] = legendre_model


class Tracer(object):
    """record which /repo functions were executed (evidence)"""

    def __init__(self):
        self.seen = set()
        self.prefix = os.path.realpath(REPO) + os.sep

    def __enter__(self):
        def prof(frame, event, arg):
            if event == 'call':
                co = frame.f_code
                fn = co.co_filename
                if fn.startswith(self.prefix):
                    self.seen.add('%s:%s' % (fn[len(self.prefix):], co.co_qualname if hasattr(co, 'co_qualname') else co.co_name))
        self._old = sys.getprofile()
        sys.setprofile(prof)
        return self

    def __exit__(self, *a):
        sys.setprofile(self._old)
