"""Stand-in for `numpy` inside the scikit_tt modules.

Only the functions listed here are modelled; anything else raises
AttributeError so that an unmodelled path can never silently fall back to float
arithmetic.  Functions that only see concrete (index / shape) data delegate to
real numpy; functions that see values go through `SymArray`.
"""
import itertools
from fractions import Fraction

import numpy as _np
import z3

from . import state
from .scalar import Sc, SymBool, zterm
from .array import (SymArray, asobj, wrap, kind_of, kind_of_dtype, maxkind, is_sym, dot as _dot,
                    tensordot as _tensordot, einsum as _einsum, _vec, _reduce, sc_max, sc_min, _fixobj)


def _conc(x):
    """is x purely concrete non-Sc data (ints, floats, real ndarrays, lists of those)"""
    return not is_sym(x)


def _shape(s):
    if _np.isscalar(s):
        return (int(s),)
    return tuple(int(k) for k in s)


class _Linalg(object):
    """np.linalg.*  -> environment stubs (symtt.lapack)"""

    def __getattr__(self, n):
        from . import lapack
        try:
            return getattr(lapack, 'np_linalg_' + n)
        except AttributeError:
            raise AttributeError('npshim: numpy.linalg.%s not modelled' % n)


class _Random(object):
    def rand(self, *shape):
        from . import lapack
        return lapack.random_rand(*shape)

    def choice(self, *a, **k):
        from . import lapack
        return lapack.random_choice(*a, **k)

    def __getattr__(self, n):
        raise AttributeError('npshim: numpy.random.%s not modelled' % n)


class NPShim(object):
    ndarray = _np.ndarray
    inf = _np.inf
    newaxis = None
    nan = _np.nan
    int32 = _np.int32
    int64 = _np.int64
    intp = _np.intp
    float32 = _np.float32
    float64 = _np.float64
    complex128 = _np.complex128
    integer = _np.integer
    floating = _np.floating
    linalg = _Linalg()
    random = _Random()

    def __getattr__(self, n):
        raise AttributeError('npshim: numpy.%s not modelled' % n)

    # --------------------------------------------------------------- constants
    @property
    def pi(self):
        from . import lapack
        return lapack.const_pi()

    # ---------------------------------------------------------------- creation
    def zeros(self, shape, dtype=None):
        k = kind_of_dtype(dtype)
        if k in ('i', 'b'):
            return _np.zeros(shape, dtype=dtype)
        return SymArray(_shape(shape), k, 0)

    def ones(self, shape, dtype=None):
        k = kind_of_dtype(dtype)
        if k in ('i', 'b'):
            return _np.ones(shape, dtype=dtype)
        return SymArray(_shape(shape), k, 1)

    def empty(self, shape, dtype=None):
        return self.zeros(shape, dtype)

    def zeros_like(self, a, dtype=None):
        return SymArray(_np.shape(a), kind_of_dtype(dtype) if dtype is not None else kind_of(a), 0)

    def eye(self, n, m=None, k=0, dtype=None):
        r = asobj(_np.eye(n, m, k))
        if dtype is not None:
            r.kind = kind_of_dtype(dtype)
        return r

    def identity(self, n):
        return self.eye(n)

    def array(self, x, ndmin=0, dtype=None, copy=True):
        if _conc(x):
            r = _np.array(x, ndmin=ndmin, dtype=dtype)
            if r.dtype.kind in 'iub' or r.dtype == object:
                return r
            return asobj(r)
        if isinstance(x, SymArray):
            a = x.copy()
        else:
            a = asobj(_np.array(_tolists(x), dtype=object))
        while a.ndim < ndmin:
            a = a[None]
        if dtype is not None:
            a = a.astype(dtype)
        return a

    def asarray(self, x, dtype=None):
        if isinstance(x, SymArray) and dtype is None:
            return x
        if isinstance(x, SymArray):
            # NumPy returns the argument itself (no copy) when it already has the requested dtype
            want = {'float': 'f', 'float64': 'f', 'complex': 'c', 'complex128': 'c', 'int': 'i', 'int64': 'i', 'bool': 'b'}.get(
                getattr(dtype, '__name__', None) or getattr(dtype, 'name', None) or str(dtype))
            if want is not None and want == x.kind:
                return x
        return self.array(x, dtype=dtype)

    def arange(self, *a, **k):
        return _np.arange(*a, **k)

    def linspace(self, *a, **k):
        return asobj(_np.linspace(*a, **k))

    def copy(self, a):
        return a.copy()

    # --------------------------------------------------------------- structure
    def reshape(self, a, s, order='C'):
        return a.reshape(s, order=order)

    def transpose(self, a, p=None):
        return a.transpose(p)

    def squeeze(self, a, axis=None):
        if isinstance(a, Sc):
            return a
        return _np.squeeze(a, axis) if not isinstance(a, SymArray) else _np.ndarray.squeeze(a, axis)

    def shape(self, a):
        return _np.shape(a)

    def ndim(self, a):
        return _np.ndim(a)

    def moveaxis(self, a, s, d):
        return _np.moveaxis(a, s, d)

    def swapaxes(self, a, i, j):
        return a.swapaxes(i, j)

    def expand_dims(self, a, axis):
        return _np.expand_dims(a, axis)

    def tensordot(self, a, b, axes=2):
        if _conc(a) and _conc(b):
            return asobj(_np.tensordot(a, b, axes)) if _isfloaty(a, b) else _np.tensordot(a, b, axes)
        return _tensordot(a, b, axes)

    def dot(self, a, b):
        if _conc(a) and _conc(b) and not _isfloaty(a, b):
            return _np.dot(a, b)
        return _dot(a, b)

    def matmul(self, a, b):
        return asobj(a) @ asobj(b)

    def inner(self, a, b):
        a = asobj(a)
        b = asobj(b)
        if a.ndim == 1 and b.ndim == 1:
            return _dot(a, b)
        if a.ndim == 0 or b.ndim == 0:
            return a * b
        return _tensordot(a, b, axes=([a.ndim - 1], [b.ndim - 1]))

    def outer(self, a, b):
        a = asobj(a).reshape(-1)
        b = asobj(b).reshape(-1)
        return a[:, None] * b[None, :]

    def kron(self, a, b):
        a = asobj(a)
        b = asobj(b)
        if a.ndim == 1:
            a = a[None, :] if b.ndim == 2 else a
        if a.ndim == 2 and b.ndim == 2:
            r = SymArray((a.shape[0] * b.shape[0], a.shape[1] * b.shape[1]), maxkind(a, b))
            rp = r.plain()
            for i in range(a.shape[0]):
                for j in range(a.shape[1]):
                    e = a.plain()[i, j]
                    if e.is_zero():
                        continue
                    for k in range(b.shape[0]):
                        for l in range(b.shape[1]):
                            rp[i * b.shape[0] + k, j * b.shape[1] + l] = e * b.plain()[k, l]
            return r
        if a.ndim == 1 and b.ndim == 1:
            return (a[:, None] * b[None, :]).reshape(-1)
        if a.ndim == b.ndim:
            sa = [x for d_ in a.shape for x in (d_, 1)]
            sb = [x for d_ in b.shape for x in (1, d_)]
            r = a.reshape(sa) * b.reshape(sb)
            return r.reshape([x * y for x, y in zip(a.shape, b.shape)])
        raise NotImplementedError('kron ndim %d %d' % (a.ndim, b.ndim))

    def einsum(self, spec, *ops, **kw):
        return _einsum(spec, *ops)

    def diag(self, v, k=0):
        if _conc(v) and not _isfloaty(v):
            return _np.diag(v, k)
        v = asobj(v)
        if v.ndim == 1:
            n = v.shape[0] + abs(k)
            out = SymArray((n, n), v.kind)
            for i in range(v.shape[0]):
                out.plain()[(i, i + k) if k >= 0 else (i - k, i)] = v.plain()[i]
            return out
        return wrap(_np.diag(v.plain(), k).copy(), v.kind)

    def diagonal(self, a):
        return self.diag(a)

    def trace(self, a):
        return asobj(a).trace()

    def append(self, a, b, axis=None):
        a = asobj(a)
        b = asobj(b)
        return wrap(_np.append(a.plain(), b.plain(), axis), maxkind(a, b))

    def concatenate(self, xs, axis=0):
        if all(_conc(x) and not _isfloaty(x) for x in xs):
            return _np.concatenate(xs, axis)
        xs = [asobj(x) for x in xs]
        return wrap(_np.concatenate([x.plain() for x in xs], axis), maxkind(*xs))

    def stack(self, xs, axis=0):
        xs = [asobj(x) for x in xs]
        return wrap(_np.stack([x.plain() for x in xs], axis), maxkind(*xs))

    def vstack(self, xs):
        xs = [asobj(x) for x in xs]
        return wrap(_np.vstack([x.plain() for x in xs]), maxkind(*xs))

    def hstack(self, xs):
        xs = [asobj(x) for x in xs]
        return wrap(_np.hstack([x.plain() for x in xs]), maxkind(*xs))

    def flip(self, a, axis=None):
        return _np.flip(a, axis)

    def tile(self, a, reps):
        a = asobj(a)
        return wrap(_np.tile(a.plain(), reps), a.kind)

    def repeat(self, a, n, axis=None):
        a = asobj(a)
        return wrap(_np.repeat(a.plain(), n, axis), a.kind)

    # -------------------------------------------------------------- elementwise
    def _un(self, f, a, kind=None):
        if isinstance(a, Sc):
            return f(a)
        if _np.isscalar(a) or isinstance(a, Fraction):
            return f(Sc.of(a))
        a = asobj(a)
        k = a.kind if kind is None else kind(a.kind)
        return wrap(_vec(f, a), k)

    def conj(self, a):
        return self._un(lambda e: Sc.of(e).conjugate(), a)
    conjugate = conj

    def real(self, a):
        return self._un(lambda e: Sc.of(e).real, a, lambda k: 'f' if k == 'c' else k)

    def imag(self, a):
        return self._un(lambda e: Sc.of(e).imag, a, lambda k: 'f' if k == 'c' else k)

    def abs(self, a):
        if _conc(a) and not _isfloaty(a):
            return _np.abs(a)
        return self._un(lambda e: abs(Sc.of(e)), a, lambda k: 'f' if k == 'c' else k)
    absolute = abs

    def sqrt(self, a):
        return self._un(lambda e: Sc.of(e).sqrt(), a, lambda k: 'f' if k in 'ib' else k)

    def exp(self, a):
        return self._un(lambda e: Sc.of(e).exp(), a, lambda k: 'f' if k in 'ib' else k)

    def sin(self, a):
        return self._un(lambda e: Sc.of(e).sin(), a, lambda k: 'f' if k in 'ib' else k)

    def cos(self, a):
        return self._un(lambda e: Sc.of(e).cos(), a, lambda k: 'f' if k in 'ib' else k)

    def reciprocal(self, a):
        return self._un(lambda e: Sc(1) / Sc.of(e), a)

    def square(self, a):
        return self._un(lambda e: Sc.of(e) * Sc.of(e), a)

    def true_divide(self, a, b):
        if (_np.isscalar(a) or isinstance(a, Sc)) and (_np.isscalar(b) or isinstance(b, Sc)):
            return Sc.of(a) / Sc.of(b)
        return asobj(a) / asobj(b)

    def divide(self, a, b, out=None, where=True, **kw):
        """numpy.divide incl. the out= / where= form (masked entries keep the value of out)"""
        q = self.true_divide(a, b) if where is True else None
        if where is True:
            if out is not None:
                out[...] = q
                return out
            return q
        A, B = _np.broadcast_arrays(asobj(a), asobj(b))
        W = _np.broadcast_to(_np.asarray(where, dtype=object) if not isinstance(where, _np.ndarray) else where, A.shape)
        if out is None:
            raise NotImplementedError('divide(where=...) without out= leaves uninitialised entries')
        res = out
        Av, Bv, Wv = A.view(_np.ndarray), B.view(_np.ndarray), W.view(_np.ndarray) if isinstance(W, _np.ndarray) else W
        for i in _np.ndindex(*A.shape):
            if bool(Wv[i]):
                res[i] = Sc.of(Av[i]) / Sc.of(Bv[i])
        return res

    def flatnonzero(self, a):
        if _conc(a):
            return _np.flatnonzero(a)
        a = asobj(a).view(_np.ndarray).ravel()
        return _np.array([i for i in range(a.shape[0]) if bool(Sc.of(a[i]) != 0)], dtype=int)

    def nonzero(self, a):
        if _conc(a):
            return _np.nonzero(a)
        a = asobj(a).view(_np.ndarray)
        idx = [i for i in _np.ndindex(*a.shape) if bool(Sc.of(a[i]) != 0)]
        return tuple(_np.array([i[d] for i in idx], dtype=int) for d in range(a.ndim))

    def count_nonzero(self, a, axis=None):
        if _conc(a):
            return _np.count_nonzero(a, axis=axis)
        assert axis is None
        return len(self.flatnonzero(a))

    def power(self, a, b):
        return asobj(a) ** b

    def maximum(self, a, b):
        if _conc(a) and _conc(b):
            return _np.maximum(a, b)
        return _np.maximum(asobj(a), asobj(b))

    def minimum(self, a, b):
        if _conc(a) and _conc(b):
            return _np.minimum(a, b)
        return _np.minimum(asobj(a), asobj(b))

    # --------------------------------------------------------------- reductions
    def sum(self, a, axis=None, **kw):
        if _conc(a) and not _isfloaty(a):
            return _np.sum(a, axis=axis)
        return asobj(a).sum(axis=axis)

    def prod(self, x, axis=None, **k):
        if _conc(x):
            r = _np.prod(x, axis=axis, **k)
            if isinstance(r, _np.generic) and r.dtype.kind in 'iu':
                return int(r)
            if _np.isscalar(r) or r.ndim == 0:
                return Sc.of(r)
            return asobj(r) if r.dtype.kind == 'f' else r
        a = asobj(x)
        return _reduce(a, lambda p, q: Sc.of(p) * Sc.of(q), Sc(1), axis, a.kind)

    def max(self, a, axis=None):
        if _conc(a) and not _isfloaty(a):
            return _np.max(a, axis=axis)
        r = asobj(a).max(axis=axis)
        from . import lapack
        lapack._log('max', a=asobj(a).copy(), axis=axis, r=r, contract=['r = max of the entries (ite chain)'])
        return r
    amax = max

    def min(self, a, axis=None):
        if _conc(a) and not _isfloaty(a):
            return _np.min(a, axis=axis)
        return asobj(a).min(axis=axis)
    amin = min

    def all(self, x, axis=None):
        if isinstance(x, (list, tuple)):
            return all(bool(e) for e in x)
        if isinstance(x, _np.ndarray) and x.dtype == object:
            return all(bool(e) for e in x.flat)
        return _np.all(x, axis=axis)

    def isclose(self, a, b, rtol=1e-05, atol=1e-08, equal_nan=False):
        """|a - b| <= atol + rtol |b| entry-wise; the tolerances are the IEEE doubles of the literals"""
        if _conc(a) and _conc(b):
            return _np.isclose(a, b, rtol=rtol, atol=atol)
        A, B = asobj(a), asobj(b)
        A, B = _np.broadcast_arrays(A.plain(), B.plain())
        out = _np.empty(A.shape, dtype=object)
        for idx in _np.ndindex(*A.shape):
            x, y = Sc.of(A[idx]), Sc.of(B[idx])
            out[idx] = abs(x - y) <= Sc.of(atol) + Sc.of(rtol) * abs(y)
        return out

    def allclose(self, a, b, rtol=1e-05, atol=1e-08, equal_nan=False):
        return self.all(self.isclose(a, b, rtol=rtol, atol=atol))

    def any(self, x, axis=None):
        if isinstance(x, (list, tuple)):
            return any(bool(e) for e in x)
        if isinstance(x, _np.ndarray) and x.dtype == object:
            return any(bool(e) for e in x.flat)
        return _np.any(x, axis=axis)

    # ------------------------------------------------- data-dependent selection
    def where(self, c, *xy):
        if xy:
            raise NotImplementedError('3-argument where')
        if isinstance(c, _np.ndarray) and c.dtype == object:
            c = c.view(_np.ndarray)
            idx = [i for i in _np.ndindex(*c.shape) if bool(c[i])]
            return tuple(_np.array([i[d] for i in idx], dtype=int) for d in range(c.ndim))
        return _np.where(c)

    def argsort(self, a, **kw):
        if _conc(a):
            return _np.argsort(a, **kw)
        a = asobj(a)
        assert a.ndim == 1
        idx = list(range(a.shape[0]))
        p = a.plain()
        # insertion sort; each comparison of symbolic reals is a fork
        for i in range(1, len(idx)):
            j = i
            while j > 0 and bool(p[idx[j]] < p[idx[j - 1]]):
                idx[j], idx[j - 1] = idx[j - 1], idx[j]
                j -= 1
        return _np.array(idx, dtype=int)

    def argmax(self, a, axis=None):
        if _conc(a):
            return _np.argmax(a, axis=axis)
        a = asobj(a)
        assert axis is None
        p = a.plain().reshape(-1)
        best = 0
        for i in range(1, p.size):
            if bool(p[i] > p[best]):
                best = i
        return best

    def unique(self, a, axis=None, return_counts=False, **kw):
        if _conc(a):
            return _np.unique(a, axis=axis, return_counts=return_counts, **kw)
        a = asobj(a)
        if all(Sc.of(e).is_concrete for e in a.plain().flat):
            return _np.unique(a.tofloat(), axis=axis, return_counts=return_counts, **kw)
        raise NotImplementedError('unique on symbolic data')

    # ------------------------------------------------------- concrete helpers
    def mod(self, a, b):
        return _np.mod(a, b)

    def remainder(self, a, b):
        return _np.remainder(a, b)

    def floor(self, a):
        return _np.floor(a)

    def ceil(self, a):
        return _np.ceil(a)

    def isin(self, a, b):
        return _np.isin(a, b)

    def setdiff1d(self, a, b):
        return _np.setdiff1d(a, b)

    def unravel_index(self, *a, **k):
        return _np.unravel_index(*a, **k)

    def ravel_multi_index(self, *a, **k):
        return _np.ravel_multi_index(*a, **k)

    def binary_repr(self, *a, **k):
        return _np.binary_repr(*a, **k)

    def cumsum(self, a, **k):
        assert _conc(a)
        return _np.cumsum(a, **k)

    def cumprod(self, a, **k):
        assert _conc(a)
        return _np.cumprod(a, **k)

    def isscalar(self, x):
        return isinstance(x, Sc) or _np.isscalar(x)

    def iscomplexobj(self, a):
        return kind_of(a) == 'c'

    def isreal(self, a):
        raise NotImplementedError

    def shares_memory(self, a, b):
        return _np.shares_memory(a, b)

    def log2(self, a):
        assert _conc(a)
        return _np.log2(a)

    def sign(self, a):
        assert _conc(a)
        return _np.sign(a)


def _isfloaty(*xs):
    """any concrete operand with float/complex values (must become exact Sc, not int math)"""
    for x in xs:
        k = kind_of(x)
        if k in ('f', 'c'):
            return True
    return False


def _tolists(x):
    if isinstance(x, SymArray):
        return x.plain().tolist()
    if isinstance(x, _np.ndarray):
        return x.tolist()
    if isinstance(x, (list, tuple)):
        return [_tolists(e) for e in x]
    return x


shim = NPShim()
