"""Replay of a counterexample (or a random input) against the UNMODIFIED code with the
real NumPy/SciPy.  Separate process, no shim.

  python -m symtt.replay <file.json> [--dump]

file: {"property", "scenario", "params", "inputs", "label"?, "seed"?}
prints one JSON line: {"failed": [labels], "exception": ..., "obligations": [...], "outs": {...}}
exit 0 always (the caller interprets), 2 on machinery failure.
"""
import importlib
import json
import sys
import traceback
import warnings

import numpy as np


def run_concrete(prop, name, params, inputs, seed=0, dump=False, tier='quick'):
    from . import loader, core
    warnings.simplefilter('ignore')
    R = loader.load(shimmed=False)
    importlib.import_module('harness.' + prop)
    sc = core.SCENARIOS[(prop, name)]
    ctx = core.Ctx('conc', R, params, inputs=inputs, seed=seed, tier=tier)
    ctx.dump = {} if dump else None
    res = {'failed': [], 'exception': None, 'obligations': []}
    try:
        sc.fn(ctx, **params)
    except core.HarnessError as e:
        res['harness_error'] = repr(e)
    except Exception as e:
        res['exception'] = '%s: %s' % (type(e).__name__, e)
        from .run import _repo_where
        res['exception_where'] = _repo_where(e)
        res['traceback'] = traceback.format_exc(limit=8)
    for ob in ctx.obligations:
        res['obligations'].append({'label': ob.label, 'status': ob.status, 'detail': ob.detail})
        if ob.status == 'failed':
            res['failed'].append(ob.label)
    res['inputs'] = {k: core._tolist(v) for k, v in ctx.used_inputs.items()}
    if dump:
        res['outs'] = ctx.dump
    return res


def main(argv):
    dump = '--dump' in argv
    path = [a for a in argv if not a.startswith('--')][0]
    spec = json.load(open(path))
    try:
        res = run_concrete(spec['property'], spec['scenario'], spec['params'], spec.get('inputs') or {},
                           spec.get('seed', 0), dump, spec.get('tier', 'quick'))
    except Exception as e:
        print(json.dumps({'machinery_error': traceback.format_exc()}))
        return 2
    print('REPLAY-RESULT ' + json.dumps(res))
    # human-readable verdict for `./check <id> --replay <file>`
    lab = spec.get('label')
    if res.get('exception'):
        print('replay: code raised %s' % res['exception'])
    for l in res['failed']:
        print('replay: obligation FAILED on the real code: %s' % l)
    if not res['failed'] and not res.get('exception'):
        print('replay: all obligations held on these inputs')
    return 0


if __name__ == '__main__':
    sys.exit(main(sys.argv[1:]))
