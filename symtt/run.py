"""Driver:  python -m symtt.run <PROP> <quick|thorough> [--only NAME] [--jobs N]
            python -m symtt.run <PROP> --replay <file>

Runs every (scenario, grid point) of the property in a pool of fresh worker
processes, replays every counterexample against the unmodified code, matches
reproduced violations against known_findings.json, writes evidence/<PROP>.json.

Exit codes: 0 property held on everything explored (known findings are printed),
            1 reproduced violation not listed as known,
            3 harness error / inconclusive obligation (never reported as success).
"""
import concurrent.futures as cf
import hashlib
import importlib
import json
import multiprocessing as mp
import os
import re
import subprocess
import sys
import time
import traceback

VERIF = os.path.dirname(os.path.dirname(os.path.abspath(__file__)))
PY = sys.executable


def _jsonable(x):
    try:
        json.dumps(x)
        return x
    except TypeError:
        return repr(x)


# ------------------------------------------------------------------------ worker
def run_task(task):
    """executed in a worker process"""
    prop, name, params, tier, seed, opts = task
    t0 = time.time()
    import signal

    def _alarm(signum, frame):
        raise TimeoutError('task exceeded its wall-clock budget of %d s' % opts.get('task_timeout', 900))
    try:
        signal.signal(signal.SIGALRM, _alarm)
        signal.alarm(int(opts.get('task_timeout', 900)))
    except Exception:
        pass
    sys.path.insert(0, VERIF)
    import warnings
    warnings.simplefilter('ignore')
    from symtt import loader, core, state, solve
    from symtt.explore import Inconclusive
    res = {'scenario': name, 'params': params, 'obligations': [], 'error': None, 'exception': None,
           'functions': [], 'notes': [], 'events': [], 'tv': None}
    try:
        R = loader.load(shimmed=True)
        importlib.import_module('harness.' + prop)
        sc = core.SCENARIOS[(prop, name)]
        for k in solve.STATS:
            solve.STATS[k] = 0 if isinstance(solve.STATS[k], int) else 0.0
        solve.CVC5_BUDGET['left'] = opts.get('cvc5', 0)
        state.reset()
        ctx = core.Ctx('sym', R, params, seed=seed, timeout_ms=opts.get('timeout_ms', 60000), tier=tier)
        tracer = loader.Tracer() if opts.get('trace') else None
        try:
            if tracer:
                tracer.__enter__()
            try:
                try:
                    sc.fn(ctx, **params)
                except state.UnexpectedFork as e0:
                    if 'outside an explorer' not in str(e0):
                        raise
                    # the code under test branched on a symbolic value where the scenario did not expect it (e.g. a changed /repo that
                    # tests `x == 0`): explore the WHOLE scenario path by path instead of giving up
                    state.reset()
                    ctx = core.Ctx('sym', R, params, seed=seed, timeout_ms=opts.get('timeout_ms', 60000), tier=tier)
                    ctx.explore('automatic whole-scenario exploration (%s)' % (str(e0)[:120],), lambda: sc.fn(ctx, **params), cap=48)
            finally:
                if tracer:
                    tracer.__exit__()
        except solve.SolverStuck as e:
            res['error'] = 'SolverStuck: %s' % e
            res['stuck'] = True
        except (core.HarnessError, Inconclusive, solve.SolverDisagreement, NotImplementedError, state.UnexpectedFork, TimeoutError) as e:
            res['error'] = '%s: %s' % (type(e).__name__, e)
            res['traceback'] = traceback.format_exc(limit=6)
        except Exception as e:
            msg = '%s: %s' % (type(e).__name__, e)
            tb = traceback.format_exc(limit=12)
            res['exception_where'] = _repo_where(e)
            if 'not modelled' in msg or 'unmodelled' in msg or 'realised' in msg or '/verif/symtt/' in tb.split('\n')[-3]:
                res['error'] = msg
                res['traceback'] = tb
            else:
                res['exception'] = msg
                res['traceback'] = tb
        res['obligations'] = [ob.asdict() for ob in ctx.obligations]
        res['notes'] = ctx.notes
        res['events'] = sorted(set(state.S.events))
        res['stats'] = dict(solve.STATS)
        res['paths'] = ctx.paths
        res['stub_calls'] = ctx.stub_calls
        res['inputs_decl'] = {k: [list(v[0]), v[1]] for k, v in ctx.decl.items()}
        res['free_symbols'] = sum(int(_size(v[0])) * (2 if v[1] else 1) for v in ctx.decl.values())
        if tracer:
            res['functions'] = sorted(tracer.seen)
        # ---- retry unknowns once with a 5x budget (load on 16 workers must not flip a verdict)
        # (obligations are re-decided by re-running the scenario; cheap scenarios only)
        if any(o['status'] == 'unknown' for o in res['obligations']) and not opts.get('noretry'):
            state.reset()
            ctx2 = core.Ctx('sym', R, params, seed=seed, timeout_ms=5 * opts.get('timeout_ms', 60000), tier=tier)
            try:
                sc.fn(ctx2, **params)
                res['obligations'] = [ob.asdict() for ob in ctx2.obligations]
                res['notes'].append('re-run with 5x solver budget after unknown')
            except Exception as e:
                res['notes'].append('retry failed: %r' % (e,))
        # ---- replay counterexamples on the real code
        bad = [o for o in res['obligations'] if o['status'] in ('sat', 'failed')]
        if bad or res['exception']:
            res['replay'] = _replay(prop, name, params, bad, res['exception'], seed, opts.get('replay_random', 2), res.get('exception_where'))
            if res['exception'] and not res['replay'].get('confirmed') and not opts.get('noprobe'):
                # an exception that only the symbolic run sees (typically the harness indexing a stub call that a changed /repo no longer makes):
                # probe the unmodified code concretely before giving up
                res['probe'] = _probe(prop, name, params, seed, 3)
        elif res['error'] and not opts.get('noprobe'):
            # the symbolic run ended without a verdict (unmodelled call, unexpected fork, budget): probe the unmodified code on a few random
            # inputs with the concrete oracles of the same scenario -- a failure there is a real, replayable violation (found by sampling, and
            # reported as such); no failure leaves the task a harness error
            res['probe'] = _probe(prop, name, params, seed, 3)
        # ---- translation validation of the shim on this scenario (sampled)
        if opts.get('tv') and not res['error'] and not res['exception'] and not bad:
            res['tv'] = _tv(prop, name, params, R, sc, seed)
            if res['tv'].get('status') == 'plain-run-failed':
                # the UNMODIFIED code failed a concrete obligation of this scenario on the random inputs of the validation run although every
                # symbolic obligation was discharged: a real, replayable failure (found by sampling) -- report it, do not hide it as a harness error
                pr = _probe(prop, name, params, seed + 777 - 100, 1)
                if pr:
                    res['probe'] = pr
                    res['tv'] = {'status': 'agree', 'compared': 0, 'bad': [], 'skipped': True, 'note': 'plain run failed: reported as a probe finding'}
    except Exception as e:
        res['error'] = 'worker failure %s: %s' % (type(e).__name__, e)
        res['traceback'] = traceback.format_exc(limit=8)
    try:
        signal.alarm(0)
    except Exception:
        pass
    res['wall_s'] = time.time() - t0
    return res


def _repo_where(e):
    """innermost frame of the traceback that lies in /repo: 'file:function'"""
    import traceback as _tb
    from symtt.loader import REPO
    w = None
    for fs in _tb.extract_tb(e.__traceback__):
        if fs.filename.startswith(REPO):
            w = '%s:%s' % (os.path.relpath(fs.filename, REPO), fs.name)
    return w


def _size(shape):
    n = 1
    for s in shape:
        n *= s
    return n


import itertools as _it
_REPLAY_COUNTER = _it.count()


def _replay_file(prop, name, params, inputs, label, seed):
    os.makedirs(os.path.join(VERIF, 'replays'), exist_ok=True)
    spec = {'property': prop, 'scenario': name, 'params': params, 'inputs': inputs, 'label': label, 'seed': seed}
    # unique per writer: two tasks with identical parameters (duplicate grid points) must not share -- and delete -- one file
    h = hashlib.sha1((json.dumps(spec, sort_keys=True) + '|%d|%d' % (os.getpid(), next(_REPLAY_COUNTER))).encode()).hexdigest()[:12]
    path = os.path.join(VERIF, 'replays', '%s-%s-%s.json' % (prop, name, h))
    with open(path, 'w') as f:
        json.dump(spec, f, indent=1)
    return path


def _run_replay(path, dump=False):
    cmd = [PY, '-m', 'symtt.replay', path] + (['--dump'] if dump else [])
    p = subprocess.run(cmd, cwd=VERIF, capture_output=True, text=True, timeout=900)
    for line in p.stdout.splitlines():
        if line.startswith('REPLAY-RESULT '):
            return json.loads(line[len('REPLAY-RESULT '):])
    return {'machinery_error': (p.stdout + p.stderr)[-2000:]}


def _base(label):
    return re.sub(r' \[(T0 == spec|cut \d+/\d+: A == B)\]$', '', label)


def _replay(prop, name, params, bad, exception, seed, n_random=2, where=None):
    """try the solver's inputs, then a few random inputs; a violation is confirmed when an obligation with
    the same base label fails (or the same exception type is raised) on the unmodified code"""
    out = {'confirmed': [], 'unconfirmed': [], 'attempts': 0}
    want = sorted(set([_base(o['label']) for o in bad] + [o['group'] for o in bad if o.get('group')]))
    cands = []
    for o in bad:
        if o.get('model_inputs'):
            cands.append((o['label'], o['model_inputs']))
    cands = cands[:2] + [(None, {})] * n_random
    confirmed = {}
    exc_confirmed = None
    for i, (lab, inputs) in enumerate(cands):
        path = _replay_file(prop, name, params, inputs, lab, seed + i)
        r = _run_replay(path)
        out['attempts'] += 1
        if 'machinery_error' in r:
            out['machinery_error'] = r['machinery_error']
            os.remove(path)
            continue
        keep = False
        for l in r.get('failed', []):
            b = _base(l)
            if b in want and b not in confirmed:
                confirmed[b] = path
                keep = True
        if r.get('failed') and not keep:
            # the detailed symbolic obligation has no concrete counterpart of the same name, but on the solver's inputs the unmodified
            # code fails a (coarser) obligation of the same scenario against the dense oracle: that is a reproduced violation of the
            # property; it is reported under the symbolic obligation, with the concrete failure named in the replay output
            have = set(_base(o['label']) for o in r.get('obligations', []))
            for o in bad:
                b = _base(o['label'])
                if b not in confirmed and b not in have and (o.get('group') is None or o.get('group') not in have):
                    confirmed[b] = path
                    keep = True
        if exception and r.get('exception') and not exc_confirmed and (r['exception'].split(':')[0] == exception.split(':')[0] or (where and r.get('exception_where') == where)):
            exc_confirmed = path
            keep = True
        if not keep:
            os.remove(path)
        if all((_base(o['label']) in confirmed) or (o.get('group') in confirmed) for o in bad) and (not exception or exc_confirmed):
            break
        if i >= 1 and (confirmed or exc_confirmed) and len(want) > 4:
            break           # many failing obligations of one scenario: one confirmed replay is enough to raise the alarm
    out['confirmed'] = [{'label': b, 'replay': p} for b, p in confirmed.items()]
    if exc_confirmed:
        out['confirmed'].append({'label': 'exception ' + exception.split(':')[0], 'replay': exc_confirmed, 'exception': exception})
    out['unconfirmed'] = [_base(o['label']) for o in bad if _base(o['label']) not in confirmed and o.get('group') not in confirmed]
    if exception and not exc_confirmed:
        out['unconfirmed'].append('exception ' + exception)
    return out


def _probe(prop, name, params, seed, n):
    found = []
    for i in range(n):
        path = _replay_file(prop, name, params, {}, 'probe', seed + 100 + i)
        try:
            r = _run_replay(path)
        except Exception:
            r = {'machinery_error': 'probe failed'}
        if 'machinery_error' in r or r.get('harness_error'):
            os.remove(path)
            continue
        if r.get('failed'):
            found.append({'label': _base(r['failed'][0]), 'replay': path, 'detail': 'concrete probe (random inputs) after an undecided symbolic run'})
            break
        if r.get('exception') and r.get('exception_where'):
            found.append({'label': 'exception ' + r['exception'].split(':')[0], 'replay': path, 'detail': r['exception'][:200]})
            break
        os.remove(path)
    return found


def _tv(prop, name, params, R, sc, seed):
    """push random concrete inputs through (a) the untouched modules with real NumPy/SciPy and
    (b) the shimmed modules in concrete mode (stubs -> real LAPACK); outputs must agree"""
    from symtt import core, state, lapack
    path = _replay_file(prop, name, params, {}, 'TV', seed + 777)
    try:
        r = _run_replay(path, dump=True)
    finally:
        if os.path.exists(path):
            os.remove(path)
    if 'machinery_error' in r or r.get('harness_error'):
        return {'status': 'error', 'detail': r.get('machinery_error') or r.get('harness_error')}
    if r.get('exception') or r.get('failed'):
        return {'status': 'plain-run-failed', 'detail': r.get('exception') or r.get('failed')}
    state.reset()
    lapack.set_policy(lapack.ConcretePolicy())
    ctx = core.Ctx('tv', R, params, inputs=r['inputs'], seed=seed + 777)
    ctx.expect_outs = r.get('outs') or {}
    ctx.tv_policy = True
    try:
        sc.fn(ctx, **params)
    except core.SkipTV:
        return {'status': 'agree', 'compared': 0, 'bad': [], 'skipped': True}
    except Exception as e:
        return {'status': 'error', 'detail': 'shimmed concrete run raised %s: %s' % (type(e).__name__, e),
                'traceback': traceback.format_exc(limit=6)}
    bad = [o.label + ' ' + str(o.detail) for o in ctx.obligations if o.status == 'failed']
    n = len([o for o in ctx.obligations if o.form == 'TV'])
    return {'status': 'agree' if not bad else 'disagree', 'compared': n, 'bad': bad}


# -------------------------------------------------------------------------- pool
def _worker_loop(conn):
    """persistent worker: receives tasks, sends results; killed by the parent when a task overruns its hard deadline
    (a solver call that ignores its timeout cannot be interrupted from inside the process)"""
    while True:
        try:
            task = conn.recv()
        except (EOFError, OSError):
            return
        if task is None:
            return
        try:
            res = run_task(task)
        except BaseException as e:       # noqa
            res = {'scenario': task[1], 'params': task[2], 'obligations': [], 'error': 'worker failure: %r' % (e,), 'exception': None, 'wall_s': 0}
        try:
            conn.send(res)
        except Exception:
            return
        if res.get('stuck'):
            os._exit(0)          # a z3 thread is still running inside this process: do not reuse it


def _run_pool(tasks, jobs, t0):
    from multiprocessing.connection import wait
    ctxm = mp.get_context('spawn')
    pending = list(enumerate(tasks))[::-1]
    results = []
    workers = []

    def spawn():
        a, b = ctxm.Pipe()
        p = ctxm.Process(target=_worker_loop, args=(b,), daemon=True)
        p.start()
        b.close()
        return {'proc': p, 'conn': a, 'task': None, 'since': None}
    for _ in range(min(jobs, max(1, len(tasks)))):
        workers.append(spawn())
    done = 0
    while done < len(tasks):
        for w in workers:
            if w['task'] is None and pending:
                idx, t = pending.pop()
                try:
                    w['conn'].send(t)
                    w['task'], w['since'] = t, time.time()
                except Exception:
                    pending.append((idx, t))
                    w.update(spawn())
        busy = [w for w in workers if w['task'] is not None]
        if not busy:
            continue
        ready = wait([w['conn'] for w in busy], timeout=1.0)
        now = time.time()
        for w in busy:
            t = w['task']
            hard = t[5].get('task_timeout', 900) + 120
            if w['conn'] in ready:
                try:
                    r = w['conn'].recv()
                except (EOFError, OSError):
                    r = {'scenario': t[1], 'params': t[2], 'obligations': [], 'error': 'worker died', 'exception': None, 'wall_s': now - w['since']}
                    try:
                        w['proc'].kill()
                    except Exception:
                        pass
                    w.update(spawn())
                    if not t[5].get('retried'):
                        # a worker process that vanished (killed by the system under memory pressure, a crash inside the solver): once more in a fresh worker
                        pending.append((len(results) + len(pending), (t[0], t[1], t[2], t[3], t[4], dict(t[5], retried=True))))
                        w['task'] = None
                        continue
                if r.get('stuck') and not t[5].get('retried'):
                    # z3 ignored its timeout and the interrupt (seen under heavy machine load): run the task once more in a fresh worker before
                    # reporting it as undecided
                    t2 = (t[0], t[1], t[2], t[3], t[4], dict(t[5], retried=True))
                    pending.append((len(results) + len(pending), t2))
                    w['task'] = None
                    continue
                results.append(r)
                done += 1
                w['task'] = None
                if os.environ.get('VERIF_PROGRESS'):
                    sys.stderr.write('[%6.1fs] %5.1fs %s %s %s\n' % (time.time() - t0, r.get('wall_s', 0), r['scenario'], json.dumps(r['params']),
                                     (r.get('error') or r.get('exception') or '')[:200]))
            elif now - w['since'] > hard:
                try:
                    w['proc'].kill()
                    w['proc'].join(5)
                except Exception:
                    pass
                results.append({'scenario': t[1], 'params': t[2], 'obligations': [], 'exception': None, 'wall_s': now - w['since'],
                                'error': 'task killed after %d s: a solver call did not return within its budget (inconclusive)' % int(now - w['since'])})
                done += 1
                w.update(spawn())
                w['task'] = None
    for w in workers:
        try:
            w['conn'].send(None)
        except Exception:
            pass
    for w in workers:
        try:
            w['proc'].join(2)
            if w['proc'].is_alive():
                w['proc'].kill()
        except Exception:
            pass
    return results


# -------------------------------------------------------------------------- main
def load_known():
    p = os.path.join(VERIF, 'known_findings.json')
    if not os.path.exists(p):
        return []
    return json.load(open(p)).get('findings', [])


def match_known(known, prop, scen, params, label):
    for k in known:
        if k.get('status', 'open') != 'open':
            continue            # "fixed:" entries suppress nothing
        if k['property'] != prop or k.get('scenario') not in (None, scen):
            continue
        if 'label' in k and not re.search(k['label'], label):
            continue
        ok = True
        for key, want in (k.get('params') or {}).items():
            have = params.get(key)
            if isinstance(want, dict) and 'in' in want:
                ok &= have in want['in']
            else:
                ok &= have == want
        if ok:
            return k
    return None


def main(argv):
    if len(argv) >= 3 and argv[1] == '--replay':
        sys.path.insert(0, VERIF)
        from symtt import replay
        return replay.main([argv[2]])
    prop = argv[0]
    tier = argv[1] if len(argv) > 1 and not argv[1].startswith('--') else os.environ.get('VERIF_TIER', 'quick')
    only = None
    jobs = int(os.environ.get('VERIF_JOBS', min(16, os.cpu_count() or 4)))
    for i, a in enumerate(argv):
        if a == '--only':
            only = argv[i + 1]
        if a == '--jobs':
            jobs = int(argv[i + 1])
    seed = int(os.environ.get('VERIF_SEED', '0'))
    t0 = time.time()
    sys.path.insert(0, VERIF)
    from symtt import core
    mod = importlib.import_module('harness.' + prop)
    if tier == 'thorough':
        importlib.import_module('harness.common').DEEP = 3
    meta = getattr(mod, 'META', {})
    scens = [s for (p, n), s in core.SCENARIOS.items() if p == prop and (only is None or re.search(only, n))]
    tasks = []
    for s in scens:
        grid = s.grid(tier)
        if seed and tier == 'quick' and len(grid) > 4:
            # rotate so that different seeds start from different points; the grid itself is exhaustive
            k = seed % len(grid)
            grid = grid[k:] + grid[:k]
        for gi, params in enumerate(grid):
            opts = {'timeout_ms': meta.get('timeout_ms', {}).get(tier, 60000 if tier == 'quick' else 300000),
                    'trace': gi == 0, 'tv': gi < meta.get('tv_per_scenario', {}).get(tier, 1) or s.name in meta.get('tv_all', []) or bool(os.environ.get('VERIF_TV_ALL')),
                    'cvc5': 2 if gi == 0 else 0, 'replay_random': meta.get('replay_random', 2),
                    'task_timeout': meta.get('task_timeout', {}).get(tier, 900 if tier == 'quick' else 3600)}
            tasks.append((prop, s.name, params, tier, seed, opts))
    results = _run_pool(tasks, jobs, t0)
    results.sort(key=lambda r: (r['scenario'], json.dumps(r['params'], sort_keys=True)))
    try:
        os.makedirs(os.path.join(VERIF, '.runlog'), exist_ok=True)
        with open(os.path.join(VERIF, '.runlog', '%s-%s.json' % (prop, tier)), 'w') as f:
            json.dump(results, f, indent=1, default=_jsonable)
    except Exception:
        pass
    return report(prop, tier, seed, results, meta, time.time() - t0, scens)


def report(prop, tier, seed, results, meta, wall, scens):
    known = load_known()
    violations = []
    known_hits = {}
    harness_errors = []
    inconclusive = []
    n_ob = n_dis = 0
    forms = {}
    stats = {}
    functions = set()
    samples = []
    nontrivial = set()
    tvs = {'agree': 0, 'disagree': 0, 'other': 0, 'compared': 0}
    for r in results:
        if r.get('error'):
            harness_errors.append('%s %s: %s' % (r['scenario'], json.dumps(r['params']), r['error']))
        functions.update(r.get('functions') or [])
        for k, v in (r.get('stats') or {}).items():
            stats[k] = stats.get(k, 0) + v
        if r.get('tv'):
            st = r['tv']['status']
            tvs['agree' if st == 'agree' else ('disagree' if st == 'disagree' else 'other')] += 1
            tvs['compared'] += r['tv'].get('compared', 0)
            if st != 'agree':
                harness_errors.append('translation validation %s %s: %s' % (r['scenario'], json.dumps(r['params']), json.dumps(r['tv'])[:600]))
        rep = r.get('replay') or {}
        conf = {c['label']: c for c in rep.get('confirmed', [])}
        for o in r['obligations']:
            n_ob += 1
            forms[o['form']] = forms.get(o['form'], 0) + 1
            if o['status'] in ('unsat', 'held'):
                n_dis += 1
                if o['note'] != 'syntactically identical' or o['form'] in ('S',):
                    nontrivial.add((r['scenario'], json.dumps(r['params'], sort_keys=True), o['label']))
            elif o['status'] == 'unknown':
                inconclusive.append('%s %s: %s (solver unknown)' % (r['scenario'], json.dumps(r['params']), o['label']))
            else:
                b = _base(o['label'])
                if b not in conf and o.get('group') in conf:
                    b = o['group']
                if b in conf:
                    k = match_known(known, prop, r['scenario'], r['params'], b)
                    if k:
                        known_hits.setdefault(k['id'], k)
                    else:
                        violations.append((r['scenario'], r['params'], b, conf[b]['replay'], o.get('detail')))
                else:
                    inconclusive.append('%s %s: %s (counterexample not reproduced on the real code)' % (r['scenario'], json.dumps(r['params']), o['label']))
        for pr in r.get('probe') or []:
            k = match_known(known, prop, r['scenario'], r['params'], pr['label'])
            if k:
                known_hits.setdefault(k['id'], k)
            else:
                violations.append((r['scenario'], r['params'], pr['label'], pr['replay'], pr['detail']))
        if r.get('exception'):
            lab = 'exception ' + r['exception'].split(':')[0]
            if lab in conf:
                k = match_known(known, prop, r['scenario'], r['params'], lab)
                if k:
                    known_hits.setdefault(k['id'], k)
                else:
                    violations.append((r['scenario'], r['params'], lab, conf[lab]['replay'], r['exception']))
            else:
                harness_errors.append('%s %s: exception only under the shim: %s\n%s' % (r['scenario'], json.dumps(r['params']), r['exception'], r.get('traceback', '')))
        if len(samples) < 6 and r['obligations']:
            o = r['obligations'][0]
            samples.append({'scenario': r['scenario'], 'params': r['params'], 'inputs': r.get('inputs_decl'),
                            'first_obligation': {k: o[k] for k in ('label', 'form', 'status', 'seconds')},
                            'n_obligations': len(r['obligations'])})
    # de-duplicate violations by (scenario,label)
    seen = set()
    uniq = []
    for v in violations:
        key = (v[0], v[2], json.dumps(v[1], sort_keys=True))
        if key not in seen:
            seen.add(key)
            uniq.append(v)
    violations = uniq
    for k in known_hits.values():
        print('KNOWN-FINDING: property=%s %s' % (prop, k['what']))
    for v in violations:
        print('VIOLATION property=%s replay=%s' % (prop, v[3]))
        print('  scenario=%s params=%s obligation=%s %s' % (v[0], json.dumps(v[1]), v[2], v[4] or ''))
    for h in harness_errors:
        print('HARNESS-ERROR: ' + h)
    for h in inconclusive:
        print('INCONCLUSIVE: ' + h)
    ev = {
        'property_id': prop, 'tier': tier, 'seed': seed, 'level': 'other',
        'wall_s': round(wall, 2), 'violations': len(violations),
        'coverage': {
            'explanation': meta.get('explanation', '') + ' Bounds: ' + meta.get('bounds', {}).get(tier, ''),
            'technique': 'symbolic execution of the real scikit_tt functions over exact reals (z3 Real terms), LAPACK/expm as '
                         'contract stubs; each obligation is a z3 query decided for all entry values at a fixed shape; sat models '
                         'are replayed on the unmodified code',
            'functions_encoded': sorted(functions),
            'scenarios': sorted(set(r['scenario'] for r in results)),
            'grid_points': len(results),
            'evaluations': len(results),
            'obligations': n_ob, 'discharged': n_dis,
            'distinct_nontrivial': len(nontrivial),
            'rule': 'one case = (scenario, shape/option grid point, obligation label); counted when the solver query contained at least one '
                    'free symbol and was not closed by syntactic identity',
            'obligations_by_form': forms,
            'solver': {k: (round(v, 3) if isinstance(v, float) else v) for k, v in stats.items()},
            'paths_explored': sum(r.get('paths', 0) for r in results),
            'stub_calls_cut': sum(r.get('stub_calls', 0) for r in results),
            'free_symbols_max': max([r.get('free_symbols', 0) for r in results] or [0]),
            'translation_validation': tvs,
            'replays_confirmed': sum(len((r.get('replay') or {}).get('confirmed', [])) for r in results),
            'known_findings_hit': sorted(known_hits),
            'inconclusive': inconclusive[:50], 'harness_errors': harness_errors[:20],
            'samples': samples,
            'exhaustive': False,
            'outside_claim': meta.get('outside', []),
        },
        'assumptions': meta.get('assumptions', []) + [
            'exact real arithmetic (floating-point rounding outside the claim)',
            'LAPACK/ARPACK/expm meet the contracts listed in DESIGN 1.4',
            'z3 5.1 (cross-checked on sampled queries with cvc5 1.4) is sound',
            'NumPy index/stride/reshape mechanics are trusted'],
    }
    if not os.environ.get('VERIF_NOEVIDENCE'):       # development aid: runs against a seeded worktree must not leave an evidence file behind
        os.makedirs(os.path.join(VERIF, 'evidence'), exist_ok=True)
        with open(os.path.join(VERIF, 'evidence', prop + '.json'), 'w') as f:
            json.dump(ev, f, indent=1, default=_jsonable)
    print('%s %s: %d grid points, %d/%d obligations discharged, %d violation(s), %d known finding(s), %d inconclusive, %d harness error(s), %.1fs' % (
        prop, tier, len(results), n_dis, n_ob, len(violations), len(known_hits), len(inconclusive), len(harness_errors), wall))
    if violations:
        return 1
    if harness_errors or inconclusive:
        return 3
    return 0


if __name__ == '__main__':
    sys.exit(main(sys.argv[1:]))
