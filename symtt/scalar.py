"""Symbolic complex scalar `Sc` over exact reals.

An `Sc` is a pair (re, im).  Each component is either *concrete* (python int or
Fraction -- floats are lifted exactly) or a z3 Real term.  Concrete fast paths
(0*x, 1*x, 0+x, concrete op concrete) keep structural zeros of block-sparse
cores out of the terms.

Booleans produced by comparisons are `SymBool`s; `bool(SymBool)` asks the active
path explorer (symtt.explore) to fork.
"""
import operator
from fractions import Fraction

import numpy as _np
import z3

from . import state


INF = float('inf')


def _is_conc(x):
    return isinstance(x, (int, Fraction)) or (isinstance(x, float) and (x == INF or x == -INF))


def _is_inf(x):
    return isinstance(x, float)


def _lift(x):
    if isinstance(x, z3.ExprRef):
        return x
    if isinstance(x, bool):
        return int(x)
    if isinstance(x, int):
        return x
    if isinstance(x, Fraction):
        return x.numerator if x.denominator == 1 else x
    if isinstance(x, (_np.integer, _np.bool_)):
        return int(x)
    if isinstance(x, (float, _np.floating)):
        x = float(x)
        if x == INF or x == -INF:
            return x            # +-infinity is kept as a concrete extended real (np.inf bookkeeping in the repo)
        if x != x:
            raise TypeError('NaN cannot be lifted')
        f = Fraction(x)
        return f.numerator if f.denominator == 1 else f
    raise TypeError('cannot lift %r to Sc component' % type(x))


def zterm(x):
    """component -> z3 Real term"""
    if isinstance(x, z3.ExprRef):
        return x
    if isinstance(x, float):
        raise ArithmeticError('infinity has no term')
    if isinstance(x, int):
        return z3.RealVal(x)
    return z3.Q(x.numerator, x.denominator)


def _add(a, b):
    if _is_inf(a) or _is_inf(b):
        if _is_inf(a) and _is_inf(b):
            return a + b
        return a if _is_inf(a) else b
    if _is_conc(a):
        if _is_conc(b):
            return a + b
        if a == 0:
            return b
    elif _is_conc(b) and b == 0:
        return a
    return zterm(a) + zterm(b)


def _sub(a, b):
    if _is_inf(a) or _is_inf(b):
        if _is_inf(a) and _is_inf(b):
            return a - b
        return a if _is_inf(a) else -b
    if _is_conc(b):
        if _is_conc(a):
            return a - b
        if b == 0:
            return a
    elif _is_conc(a) and a == 0:
        return -b
    return zterm(a) - zterm(b)


def _mul(a, b):
    if _is_inf(a) or _is_inf(b):
        if _is_conc(a) and _is_conc(b):
            if a == 0 or b == 0:
                raise ArithmeticError('0 * inf')
            return a * b if not isinstance(a, Fraction) and not isinstance(b, Fraction) else float(a) * float(b)
        raise NotImplementedError('inf * symbolic')
    if _is_conc(a):
        if _is_conc(b):
            return a * b
        if a == 0:
            return 0
        if a == 1:
            return b
        if a == -1:
            return -b
    elif _is_conc(b):
        if b == 0:
            return 0
        if b == 1:
            return a
        if b == -1:
            return -a
    return zterm(a) * zterm(b)


def _neg(a):
    return -a


def _div(a, b):
    if _is_inf(b):
        if _is_inf(a):
            raise ArithmeticError('inf / inf')
        return 0
    if _is_inf(a):
        if _is_conc(b):
            return a if b > 0 else -a
        raise NotImplementedError('inf / symbolic')
    if _is_conc(b):
        if b == 0:
            raise ZeroDivisionError('Sc division by concrete zero')
        if _is_conc(a):
            r = Fraction(a) / Fraction(b)
            return r.numerator if r.denominator == 1 else r
        if b == 1:
            return a
        return zterm(a) * zterm(Fraction(1) / Fraction(b))
    if _is_conc(a) and a == 0:
        return 0
    state.note_division(b)
    return zterm(a) / b


class SymBool(object):
    """A boolean that may be a z3 formula.  bool() forks through the explorer."""
    __slots__ = ('e',)

    def __init__(self, e):
        self.e = e

    def __bool__(self):
        return state.decide(self.e)

    def __and__(self, o):
        return SymBool(z3.And(self.e, _boolterm(o)))
    __rand__ = __and__

    def __or__(self, o):
        return SymBool(z3.Or(self.e, _boolterm(o)))
    __ror__ = __or__

    def __invert__(self):
        return SymBool(z3.Not(self.e))

    def __repr__(self):
        return 'SymBool(%s)' % self.e


def _boolterm(o):
    if isinstance(o, SymBool):
        return o.e
    if isinstance(o, z3.BoolRef):
        return o
    return z3.BoolVal(bool(o))


def _mkbool(e):
    if isinstance(e, bool):
        return e
    if z3.is_true(e):
        return True
    if z3.is_false(e):
        return False
    return SymBool(e)


class Sc(object):
    __slots__ = ('re', 'im')

    def __init__(self, re, im=0):
        self.re = _lift(re)
        self.im = _lift(im)

    # ---------------------------------------------------------------- lifting
    @staticmethod
    def of(o):
        if isinstance(o, Sc):
            return o
        if isinstance(o, (complex, _np.complexfloating)):
            return Sc(o.real, o.imag)
        if isinstance(o, _np.ndarray) and o.ndim == 0:
            return Sc.of(o.item())
        if isinstance(o, SymBool):
            return Sc(z3.If(o.e, z3.RealVal(1), z3.RealVal(0)))
        return Sc(o)

    @property
    def is_real(self):
        return _is_conc(self.im) and self.im == 0

    @property
    def is_concrete(self):
        return _is_conc(self.re) and _is_conc(self.im)

    def is_zero(self):
        return self.is_concrete and self.re == 0 and self.im == 0

    # ------------------------------------------------------------- arithmetic
    def _bin(self, o, f, swap=False):
        if isinstance(o, _np.ndarray) and o.ndim > 0:
            return NotImplemented
        try:
            o = Sc.of(o)
        except TypeError:
            return NotImplemented
        return f(o, self) if swap else f(self, o)

    @staticmethod
    def _a(a, b):
        return Sc(_add(a.re, b.re), _add(a.im, b.im))

    @staticmethod
    def _s(a, b):
        return Sc(_sub(a.re, b.re), _sub(a.im, b.im))

    @staticmethod
    def _m(a, b):
        if a.is_real:
            if b.is_real:
                return Sc(_mul(a.re, b.re))
            return Sc(_mul(a.re, b.re), _mul(a.re, b.im))
        if b.is_real:
            return Sc(_mul(a.re, b.re), _mul(a.im, b.re))
        return Sc(_sub(_mul(a.re, b.re), _mul(a.im, b.im)), _add(_mul(a.re, b.im), _mul(a.im, b.re)))

    def canon(s):
        """drop an imaginary part that is the zero polynomial (exact: equal for all values of the symbols)"""
        if not isinstance(s.im, z3.ExprRef):
            return s
        t = s.im
        # cheap refutation first: a polynomial that is non-zero at a pseudo-random rational point is not the zero polynomial
        if state.S.trans or _has_division(t):
            return s
        consts = _consts_of(t)
        for salt in (1, 2):
            sub = [(c, z3.Q(1 + (hash((c.decl().name(), salt)) % 23), 3 + (hash((salt, c.decl().name())) % 7))) for c in consts]
            v = z3.simplify(z3.substitute(t, *sub)) if sub else z3.simplify(t)
            if not (z3.is_rational_value(v) and v.numerator_as_long() == 0):
                return s
        sol = z3.Solver()
        sol.set('timeout', 5000)
        sol.add(t != 0)
        if str(sol.check()) == 'unsat':
            return Sc(s.re)
        return s

    @staticmethod
    def _d(a, b):
        if not b.is_real:
            b = b.canon()
        if not a.is_real and b.is_real:
            a = a.canon()
        if b.is_real:
            return Sc(_div(a.re, b.re), _div(a.im, b.re))
        den = _add(_mul(b.re, b.re), _mul(b.im, b.im))
        n = Sc._m(a, b.conjugate())
        return Sc(_div(n.re, den), _div(n.im, den))

    def __add__(s, o):
        return s._bin(o, Sc._a)
    __radd__ = __add__

    def __sub__(s, o):
        return s._bin(o, Sc._s)

    def __rsub__(s, o):
        return s._bin(o, Sc._s, swap=True)

    def __mul__(s, o):
        return s._bin(o, Sc._m)
    __rmul__ = __mul__

    def __truediv__(s, o):
        return s._bin(o, Sc._d)

    def __rtruediv__(s, o):
        return s._bin(o, Sc._d, swap=True)

    def __neg__(s):
        return Sc(_neg(s.re), _neg(s.im))

    def __pos__(s):
        return s

    def __pow__(s, k):
        if isinstance(k, Sc) and k.is_concrete and k.is_real:
            k = k.re
        if isinstance(k, (float, _np.floating)) and float(k) == int(k):
            k = int(k)
        if isinstance(k, (int, _np.integer)) or (isinstance(k, Fraction) and k.denominator == 1):
            k = int(k)
            if k < 0:
                return Sc(1) / (s ** (-k))
            r = Sc(1)
            for _ in range(k):
                r = r * s
            return r
        kf = Fraction(float(k)) if isinstance(k, (float, _np.floating)) else k
        if isinstance(kf, Fraction) and s.is_real:
            return state.algebraic_root(s, kf)
        raise NotImplementedError('Sc ** %r' % (k,))

    def __rpow__(s, base):
        raise NotImplementedError('%r ** Sc' % (base,))

    def conjugate(s):
        return s if s.is_real else Sc(s.re, _neg(s.im))
    conj = conjugate

    @property
    def real(s):
        return Sc(s.re)

    @property
    def imag(s):
        return Sc(s.im)

    def reciprocal(s):
        return Sc(1) / s

    # numpy-scalar conveniences the repo code uses on array elements
    def copy(s):
        return s

    def item(s):
        return s

    shape = ()
    ndim = 0
    size = 1

    def __abs__(s):
        if s.is_real:
            if _is_conc(s.re):
                return Sc(abs(s.re))
            return Sc(z3.If(s.re >= 0, s.re, -s.re))
        return (s * s.conjugate()).real.sqrt()

    def sqrt(s):
        if not s.is_real:
            raise NotImplementedError('sqrt of complex Sc')
        return state.algebraic_root(s, Fraction(1, 2))

    def exp(s):
        return state.transcendental('exp', s)

    def sin(s):
        return state.transcendental('sin', s)

    def cos(s):
        return state.transcendental('cos', s)

    # ------------------------------------------------------------ comparisons
    def _cmp(s, o, op):
        try:
            o = Sc.of(o)
        except TypeError:
            return NotImplemented
        if not (s.is_real and o.is_real):
            s, o = s.canon(), o.canon()
        if not (s.is_real and o.is_real):
            # NumPy orders complex numbers lexicographically (real part, then imaginary part)
            if _is_inf(s.re) or _is_inf(o.re):
                raise TypeError('ordering comparison of complex Sc with infinity')
            ar, br, ai, bi = zterm(s.re), zterm(o.re), zterm(s.im), zterm(o.im)
            strict = {operator.gt: operator.gt, operator.ge: operator.gt, operator.lt: operator.lt, operator.le: operator.lt}[op]
            return _mkbool(z3.simplify(z3.Or(strict(ar, br), z3.And(ar == br, op(ai, bi)))))
        a, b = s.re, o.re
        if _is_conc(a) and _is_conc(b):
            return op(a, b)
        if _is_inf(a) or _is_inf(b):
            # a symbolic real is finite
            return op(a, 0) if _is_inf(a) else op(0, b)
        return SymBool(op(zterm(a), zterm(b)))

    def __gt__(s, o):
        return s._cmp(o, operator.gt)

    def __lt__(s, o):
        return s._cmp(o, operator.lt)

    def __ge__(s, o):
        return s._cmp(o, operator.ge)

    def __le__(s, o):
        return s._cmp(o, operator.le)

    def __eq__(s, o):
        if isinstance(o, _np.ndarray) and o.ndim > 0:
            return NotImplemented
        try:
            o = Sc.of(o)
        except TypeError:
            return False
        return _mkbool(s.eq_term(o))

    def __ne__(s, o):
        if isinstance(o, _np.ndarray) and o.ndim > 0:
            return NotImplemented
        try:
            o = Sc.of(o)
        except TypeError:
            return True
        e = s.eq_term(o)
        return (not e) if isinstance(e, bool) else SymBool(z3.Not(e))

    __hash__ = None

    def __bool__(s):
        e = s.eq_term(Sc(0))
        if isinstance(e, bool):
            return not e
        return state.decide(z3.Not(e))

    def eq_term(s, o):
        """python bool or z3 BoolRef: s == o"""
        o = Sc.of(o)
        out = []
        for a, b in ((s.re, o.re), (s.im, o.im)):
            if _is_conc(a) and _is_conc(b):
                if a != b:
                    return False
            elif _is_inf(a) or _is_inf(b):
                return False
            elif isinstance(a, z3.ExprRef) and isinstance(b, z3.ExprRef) and a.eq(b):
                continue
            else:
                out.append(zterm(a) == zterm(b))
        if not out:
            return True
        return z3.And(*out) if len(out) > 1 else out[0]

    # ---------------------------------------------------------- realisation
    def __float__(s):
        if s.is_concrete and s.is_real:
            return s.re if _is_inf(s.re) else float(Fraction(s.re))
        raise TypeError('symbolic Sc realised as float (unmodelled path)')

    def __complex__(s):
        if s.is_concrete:
            return complex(float(Fraction(s.re)), float(Fraction(s.im)))
        raise TypeError('symbolic Sc realised as complex (unmodelled path)')

    def __int__(s):
        if s.is_concrete and s.is_real and Fraction(s.re).denominator == 1:
            return int(s.re)
        raise TypeError('symbolic Sc realised as int (unmodelled path)')

    def __index__(s):
        return s.__int__()

    def __repr__(s):
        if s.is_real:
            return 'Sc(%s)' % (s.re,)
        return 'Sc(%s, %s)' % (s.re, s.im)

    def evaluate(s, model):
        """complex value under a z3 model (exact Fractions -> python complex)"""
        return complex(_ev(s.re, model), _ev(s.im, model))

    def evaluate_exact(s, model):
        return (_ev_exact(s.re, model), _ev_exact(s.im, model))


def _ev_exact(c, model):
    if _is_inf(c):
        return c
    if _is_conc(c):
        return Fraction(c)
    v = model.eval(c, model_completion=True)
    if z3.is_rational_value(v):
        return Fraction(v.numerator_as_long(), v.denominator_as_long())
    if z3.is_algebraic_value(v):
        a = v.approx(30)
        return Fraction(a.numerator_as_long(), a.denominator_as_long())
    raise ValueError('cannot evaluate %s -> %s' % (c, v))


def _ev(c, model):
    return float(_ev_exact(c, model))


def _consts_of(t):
    seen, out, stack = set(), [], [t]
    while stack:
        u = stack.pop()
        i = u.get_id()
        if i in seen:
            continue
        seen.add(i)
        if z3.is_const(u):
            if u.decl().kind() == z3.Z3_OP_UNINTERPRETED:
                out.append(u)
        else:
            stack.extend(u.children())
    return out


def _has_division(t):
    seen, stack = set(), [t]
    while stack:
        u = stack.pop()
        i = u.get_id()
        if i in seen:
            continue
        seen.add(i)
        if z3.is_app(u) and u.decl().kind() == z3.Z3_OP_DIV:
            return True
        stack.extend(u.children())
    return False


def sym(name, cplx=False):
    """fresh free symbol"""
    return Sc(z3.Real(name + ('.r' if cplx else '')), z3.Real(name + '.i') if cplx else 0)


I = Sc(0, 1)
