"""Deciding obligations with z3 (and cross-checking with cvc5)."""
import time
from fractions import Fraction

import numpy as _np
import z3

from . import state
from .scalar import Sc, zterm, _is_conc
from .array import asobj, SymArray

STATS = {'queries': 0, 'solver_s': 0.0, 'unsat': 0, 'sat': 0, 'unknown': 0, 'trivial': 0,
         'cvc5_checked': 0, 'cvc5_agree': 0, 'cvc5_unknown': 0, 'cvc5_s': 0.0}
CVC5_BUDGET = {'left': 0, 'timeout_ms': 20000}


class Verdict(object):
    def __init__(self, status, model=None, where=None, seconds=0.0, note=''):
        self.status = status      # 'unsat' | 'sat' | 'unknown'
        self.model = model
        self.where = where
        self.seconds = seconds
        self.note = note

    def __repr__(self):
        return 'Verdict(%s%s, %.2fs)' % (self.status, '' if self.where is None else ' at %s' % (self.where,), self.seconds)


def _flat(x):
    if isinstance(x, Sc):
        return [((), x)]
    if isinstance(x, (int, float, complex, Fraction, _np.generic)):
        return [((), Sc.of(x))]
    a = asobj(x)
    return [(idx, Sc.of(a.plain()[idx])) for idx in _np.ndindex(*a.shape)]


def diseq_terms(A, B):
    """list of (index, z3 Bool a!=b); entries that are syntactically equal are dropped;
    concretely different entries yield (index, True)"""
    fa, fb = _flat(A), _flat(B)
    if len(fa) != len(fb) or _np.shape(A) != _np.shape(B):
        raise ValueError('shape mismatch %s vs %s' % (_np.shape(A), _np.shape(B)))
    out = []
    for (i, a), (_, b) in zip(fa, fb):
        e = a.eq_term(b)
        if e is True:
            continue
        if e is False:
            out.append((i, True))
        else:
            out.append((i, z3.Not(e)))
    return out


class SolverStuck(Exception):
    """a z3 call neither honoured its timeout nor an interrupt: the worker process must be abandoned"""


def _check(solver, timeout_ms):
    """check() with the solver's own timeout AND a watchdog thread: some z3 procedures (polynomial arithmetic inside nlsat) do not poll
    the timeout; after timeout+5 s the context is interrupted, after a further 15 s the call is given up (-> SolverStuck)"""
    import threading
    solver.set('timeout', int(timeout_ms))
    t = time.time()
    box = {}

    def work():
        try:
            box['r'] = str(solver.check())
        except z3.Z3Exception as e:
            box['r'] = 'unknown'
            box['e'] = str(e)
    th = threading.Thread(target=work, daemon=True)
    th.start()
    th.join(timeout_ms / 1000.0 + 5)
    if th.is_alive():
        try:
            solver.ctx.interrupt()
        except Exception:
            pass
        th.join(15)
        if th.is_alive():
            STATS['unknown'] += 1
            raise SolverStuck('z3 ignored timeout and interrupt after %.0f s' % (time.time() - t))
    r = box.get('r', 'unknown')
    dt = time.time() - t
    STATS['queries'] += 1
    STATS['solver_s'] += dt
    STATS[r] += 1
    return r, dt


_SYMCACHE = {}


def _syms_of(e):
    """ids of the uninterpreted constants occurring in e (cached per term id)"""
    k = e.get_id()
    r = _SYMCACHE.get(k)
    if r is not None and r[0].eq(e):
        return r[1]
    seen = set()
    out = set()
    stack = [e]
    while stack:
        t = stack.pop()
        i = t.get_id()
        if i in seen:
            continue
        seen.add(i)
        if z3.is_const(t):
            if t.decl().kind() == z3.Z3_OP_UNINTERPRETED:
                out.add(i)
        else:
            stack.extend(t.children())
    if len(_SYMCACHE) > 20000:
        _SYMCACHE.clear()
    _SYMCACHE[k] = (e, out)
    return out


def _relevant(axioms, formulas):
    """cone of influence: keep only the axioms that (transitively) share a symbol with the query.
    Dropping independent satisfiable side conditions changes neither sat nor unsat."""
    if not axioms:
        return []
    need = set()
    for f in formulas:
        need |= _syms_of(f)
    pool = [(a, _syms_of(a)) for a in axioms]
    keep = []
    changed = True
    while changed and pool:
        changed = False
        rest = []
        for a, sy in pool:
            if sy & need or not sy:
                keep.append(a)
                need |= sy
                changed = True
            else:
                rest.append((a, sy))
        pool = rest
    return keep


def _mk(assumptions, formula=None):
    s = z3.Solver()
    ass = [getattr(a, 'e', a) for a in assumptions]
    ass = [a for a in ass if not isinstance(a, bool)]
    if formula is None:
        s.add(*state.S.axioms)
        s.add(*ass)
        return s
    pool = list(state.S.axioms) + ass
    s.add(*_relevant(pool, [formula]))
    return s


class MergedModel(object):
    """model of the query (over the cone of influence) completed by a model of the assumptions that were filtered away because they
    share no symbol with it: a counterexample handed to the replay must satisfy EVERY input assumption / path condition, not only the
    relevant ones (the two symbol sets are disjoint by construction of the cone)"""

    def __init__(self, main, rest):
        self.main, self.rest = main, rest

    def eval(self, t, model_completion=False):
        v = self.main.eval(t, model_completion=False)
        return self.rest.eval(v, model_completion=model_completion)

    def __getattr__(self, name):
        return getattr(self.main, name)


def _complete_model(model, assumptions, formula, timeout_ms):
    """extend a model of the filtered query to the assumptions dropped by the cone-of-influence reduction"""
    try:
        pool = list(state.S.axioms) + [a for a in [getattr(x, 'e', x) for x in assumptions] if not isinstance(a, bool)]
        kept = set(a.get_id() for a in _relevant(pool, [formula]))
        dropped = [a for a in pool if a.get_id() not in kept]
        if not dropped:
            return model
        s = z3.Solver()
        s.add(*dropped)
        r, _ = _check(s, min(timeout_ms, 20000))
        if r == 'sat':
            return MergedModel(model, s.model())
    except Exception:
        pass
    return model


def check_sat(formula, assumptions=(), timeout_ms=60000, cross=True):
    """decide satisfiability of formula under axioms+assumptions"""
    v = _check_sat(formula, assumptions, timeout_ms, cross)
    if v.status == 'sat' and v.model is not None and not z3.is_true(formula):
        v.model = _complete_model(v.model, assumptions, formula, timeout_ms)
    return v


def _check_sat(formula, assumptions=(), timeout_ms=60000, cross=True):
    s = _mk(assumptions, None if z3.is_true(formula) else formula)     # satisfiability of the assumptions themselves: no filtering
    s.add(formula)
    r, dt = _check(s, timeout_ms)
    if r == 'unknown':
        s2 = z3.Then('simplify', 'purify-arith', 'qfnra-nlsat').solver() if not _has_uf(formula) else None
        if s2 is not None:
            s2.add(*_relevant(list(state.S.axioms) + [getattr(a, 'e', a) for a in assumptions], [formula]))
            s2.add(formula)
            r, dt2 = _check(s2, timeout_ms)
            dt += dt2
            if r == 'sat':
                return Verdict('sat', s2.model(), None, dt)
    if cross and r in ('sat', 'unsat'):
        _cross_check(s, r)
    return Verdict(r, s.model() if r == 'sat' else None, None, dt)


def _has_uf(f):
    return bool(state.S.trans)


def random_point_witness(ds, assumptions, tries=80):
    """Refutation by evaluation: look for a pseudo-random rational point that satisfies every relevant axiom/assumption and makes some
    entry differ.  Returns (z3 model, index) or None.  Only REFUTES (a witness is replayed on the real code like any solver model);
    `holds` verdicts always come from the solver."""
    real = [(i, d) for i, d in ds if d is not True]
    if not real:
        return None
    f = z3.Or(*[d for _, d in real]) if len(real) > 1 else real[0][1]
    if _has_div(f) and False:
        return None
    rel = _relevant(list(state.S.axioms) + [getattr(a, 'e', a) for a in assumptions if not isinstance(getattr(a, 'e', a), bool)], [f])
    syms = {}
    for g in [f] + rel:
        for c in _collect_consts(g):
            syms[c.decl().name()] = c
    if not syms or len(syms) > 3000:
        return None
    import hashlib
    for k in range(tries):
        sub = []
        for n, c in syms.items():
            hsh = int(hashlib.sha1(('%d/%s' % (k, n)).encode()).hexdigest()[:8], 16)
            val = z3.Q(1 + hsh % 13, 2 + (hsh // 13) % 9)
            if (hsh // 1000) % 3 == 0 and not n.startswith(('u', 'theta', 'nu', 'k', 'variance', 'simulations', 'h')):
                val = -val
            if n.startswith('u') or n.startswith('theta'):
                val = z3.Q(1 + hsh % 7, 9 + (hsh // 7) % 5)       # in (0, 1)
            sub.append((c, val))
        try:
            ok = all(z3.is_true(z3.simplify(z3.substitute(a, *sub))) for a in rel)
            if not ok:
                continue
            hit = None
            for i, d in real:
                if z3.is_true(z3.simplify(z3.substitute(d, *sub))):
                    hit = i
                    break
        except Exception:
            return None
        if hit is None:
            continue
        sol = z3.Solver()
        for c, v in sub:
            sol.add(c == v)
        if str(sol.check()) == 'sat':
            return sol.model(), hit
    return None


def prove_equal(A, B, assumptions=(), timeout_ms=60000):
    """unsat <=> A == B entry-wise for all values of the free symbols (under axioms+assumptions)"""
    t0 = time.time()
    ds = diseq_terms(A, B)
    if not ds:
        STATS['trivial'] += 1
        return Verdict('unsat', note='syntactically identical')
    for i, d in ds:
        if d is True:
            # concretely different entry: still need a model of the assumptions
            v = check_sat(z3.BoolVal(True), assumptions, timeout_ms, cross=False)
            if v.status == 'sat':
                return Verdict('sat', v.model, i, time.time() - t0, 'concrete mismatch')
            if v.status == 'unsat':
                return Verdict('unsat', note='assumptions unsatisfiable (vacuous)')
            return Verdict('unknown', seconds=time.time() - t0)
    def witness(tries):
        if state.S.trans:
            return None
        try:
            w = random_point_witness(ds, assumptions, tries)
        except Exception:
            w = None
        if w is not None:
            STATS['sat'] += 1
            return Verdict('sat', w[0], w[1], time.time() - t0, 'witness by evaluation at a rational point')
        return None
    w = witness(2)
    if w is not None:
        return w
    v = check_sat(z3.Or(*[d for _, d in ds]) if len(ds) > 1 else ds[0][1], assumptions, timeout_ms)
    if v.status == 'unsat':
        return Verdict('unsat', seconds=time.time() - t0)
    if v.status == 'unknown':
        w = witness(80)
        if w is not None:
            return w
    if v.status == 'sat':
        where = None
        for i, d in ds:
            if z3.is_true(v.model.eval(d, model_completion=True)):
                where = i
                break
        return Verdict('sat', v.model, where, time.time() - t0)
    # unknown on the disjunction: go entry by entry
    allunsat = True
    for i, d in ds:
        v = check_sat(d, assumptions, timeout_ms)
        if v.status == 'sat':
            return Verdict('sat', v.model, i, time.time() - t0)
        if v.status != 'unsat':
            allunsat = False
    return Verdict('unsat' if allunsat else 'unknown', seconds=time.time() - t0)


_RANDPT = {}


def _random_value(sym):
    """deterministic pseudo-random small rational for a symbol (used only to REFUTE equivalence quickly)"""
    n = sym.decl().name()
    if n not in _RANDPT:
        import hashlib
        hsh = int(hashlib.sha1(n.encode()).hexdigest()[:8], 16)
        _RANDPT[n] = z3.Q(1 + hsh % 17, 3 + (hsh // 17) % 11) * (1 if (hsh // 1000) % 2 else -1)
    return _RANDPT[n]


def differs_at_random_point(ds):
    """True if some entry provably differs at a fixed pseudo-random rational point (then the arrays are NOT equivalent).
    Only used when no axioms constrain the symbols involved (free inputs / stub outputs)."""
    f = z3.Or(*[d for _, d in ds]) if len(ds) > 1 else ds[0][1]
    syms = [e for e in _collect_consts(f)]
    if not syms or len(syms) > 4000:
        return False
    if _has_div(f):
        return False
    sub = [(x, _random_value(x)) for x in syms]
    try:
        v = z3.simplify(z3.substitute(f, *sub))
    except Exception:
        return False
    return z3.is_true(v)


def _collect_consts(f):
    seen, out, stack = set(), [], [f]
    while stack:
        t = stack.pop()
        i = t.get_id()
        if i in seen:
            continue
        seen.add(i)
        if z3.is_const(t):
            if t.decl().kind() == z3.Z3_OP_UNINTERPRETED:
                out.append(t)
        else:
            stack.extend(t.children())
    return out


def _has_div(f):
    seen, stack = set(), [f]
    while stack:
        t = stack.pop()
        i = t.get_id()
        if i in seen:
            continue
        seen.add(i)
        if z3.is_app(t) and t.decl().kind() in (z3.Z3_OP_DIV, z3.Z3_OP_IDIV, z3.Z3_OP_UNINTERPRETED) and t.num_args() > 0:
            return True
        stack.extend(t.children())
    return False


def arrays_equivalent(A, B, timeout_ms=10000):
    if _np.shape(A) != _np.shape(B):
        return False
    ds = diseq_terms(A, B)
    if not ds:
        return True
    if any(d is True for _, d in ds):
        return False
    ax_syms = set()
    for a in state.S.axioms:
        ax_syms |= _syms_of(a)
    fsyms = set()
    for _, d in ds:
        fsyms |= _syms_of(d)
    if not (fsyms & ax_syms) and differs_at_random_point(ds):
        return False
    f = z3.Or(*[d for _, d in ds]) if len(ds) > 1 else ds[0][1]
    s = _mk((), f)
    s.add(f)
    r, _ = _check(s, timeout_ms)
    return r == 'unsat'


def robust_model(A, B, where, assumptions=(), symbols=(), timeout_ms=30000, margin=1, box=4):
    """a model in which the failing entry differs by >= margin and all listed symbols are in [-box, box]"""
    fa = dict(_flat(A))
    fb = dict(_flat(B))
    a, b = fa[where], fb[where]
    dr = zterm(a.re) - zterm(b.re)
    di = zterm(a.im) - zterm(b.im)
    far = z3.Or(dr >= margin, dr <= -margin, di >= margin, di <= -margin)
    rel = _syms_of(far)
    boxes = [z3.And(x >= -box, x <= box) for x in symbols]
    s = _mk(list(assumptions) + boxes, far)
    s.add(far)
    r, _ = _check(s, timeout_ms)
    if r == 'sat':
        return s.model()
    return None


def free_symbols(*arrays):
    seen = {}
    def visit(t):
        stack = [t]
        while stack:
            e = stack.pop()
            if e.get_id() in seen:
                continue
            seen[e.get_id()] = None
            if z3.is_const(e) and e.decl().kind() == z3.Z3_OP_UNINTERPRETED:
                seen[e.get_id()] = e
            else:
                stack.extend(e.children())
    for A in arrays:
        for _, s in _flat(A):
            for c in (s.re, s.im):
                if isinstance(c, z3.ExprRef):
                    visit(c)
    return [v for v in seen.values() if v is not None]


# --------------------------------------------------------------------- cvc5
def _cross_check(solver, z3_result):
    if CVC5_BUDGET['left'] <= 0:
        return
    CVC5_BUDGET['left'] -= 1
    try:
        import cvc5
    except Exception:
        return
    t = time.time()
    text = solver.to_smt2()
    try:
        slv = cvc5.Solver()
        slv.setOption('tlimit-per', str(CVC5_BUDGET['timeout_ms']))
        slv.setLogic('ALL')
        parser = cvc5.InputParser(slv)
        parser.setStringInput(cvc5.InputLanguage.SMT_LIB_2_6, text, 'q')
        sm = parser.getSymbolManager()
        res = None
        while True:
            cmd = parser.nextCommand()
            if cmd.isNull():
                break
            out = cmd.invoke(slv, sm)
            o = str(out).strip()
            if o in ('sat', 'unsat', 'unknown'):
                res = o
        STATS['cvc5_checked'] += 1
        STATS['cvc5_s'] += time.time() - t
        if res == z3_result:
            STATS['cvc5_agree'] += 1
        elif res in ('sat', 'unsat'):
            raise SolverDisagreement('z3 says %s, cvc5 says %s' % (z3_result, res))
        else:
            STATS['cvc5_unknown'] += 1
    except SolverDisagreement:
        raise
    except Exception as e:  # parser limitations etc. -> counted as unknown
        STATS['cvc5_checked'] += 1
        STATS['cvc5_unknown'] += 1
        STATS['cvc5_s'] += time.time() - t


class SolverDisagreement(Exception):
    pass
