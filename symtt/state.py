"""Per-task global state of the symbolic executor.

`reset()` is called at the start of every obligation run.  Holds

* the active path explorer (decisions on symbolic booleans),
* `axioms`   -- side conditions introduced by the executor itself (algebraic
                symbols  rho>=0 & rho^k = c, stub contracts that are *assumed*),
* `denoms`   -- every symbolic denominator the executed code divided by (the
                harness decides whether to assume them non-zero; listed in evidence),
* `events`   -- dtype events (imaginary part discarded on store, ...),
* fresh-name counters and the registries that make sqrt/exp/sin/cos functional.
"""
from fractions import Fraction

import z3


class UnexpectedFork(Exception):
    """bool() of a symbolic condition with no explorer active"""


class _State(object):
    def __init__(self):
        self.reset()

    def reset(self):
        self.__dict__.clear()
        self.explorer = None
        self.policy = None
        self.axioms = []
        self.denoms = []
        self.events = []
        self.counters = {}
        self.roots = []          # (arg Sc, exponent Fraction, result Sc)
        self.trans = {}          # name -> z3 Function
        self.stub_log = []       # filled by lapack stubs
        self.notes = []


S = _State()


def reset():
    S.reset()


def fresh(prefix):
    n = S.counters.get(prefix, 0)
    S.counters[prefix] = n + 1
    return '%s%s%d' % (getattr(S, 'run_prefix', ''), prefix, n)


def assume(cond):
    """add a side condition (z3 BoolRef or SymBool) that holds on every path"""
    e = getattr(cond, 'e', cond)
    if isinstance(e, bool):
        if not e:
            raise AssertionError('assume(False)')
        return
    if S.explorer is not None:
        S.explorer.assume(e)
    S.axioms.append(e)


def note_division(den):
    S.denoms.append(den)


class AssumptionDecider(object):
    """decides a symbolic condition when the given assumptions determine it (no forking); used for argument validation
    such as `if variance <= 0: raise` with variance > 0 assumed"""

    def __init__(self, assumptions):
        self.assumes = assumptions          # live list: assumptions declared later count as well
        self.extra = []
        self.pc = []
        self.queries = 0

    def assume(self, e):
        self.extra.append(e)

    def decide(self, e):
        res = []
        for cand in (True, False):
            s = z3.Solver()
            s.set('timeout', 20000)
            s.add(*self.assumes)
            s.add(*self.extra)
            s.add(*S.axioms)
            s.add(e if cand else z3.Not(e))
            res.append(str(s.check()))
            self.queries += 1
        if res[0] != 'unsat' and res[1] == 'unsat':
            return True
        if res[1] != 'unsat' and res[0] == 'unsat':
            return False
        raise UnexpectedFork('condition not determined by the assumptions: %s' % (str(e)[:200],))


def decide(e):
    if S.explorer is None:
        raise UnexpectedFork('symbolic branch condition outside an explorer: %s' % (str(e)[:200],))
    return S.explorer.decide(e)


def algebraic_root(s, q):
    """s ** q for real s and rational q, exact.

    concrete perfect powers are folded; otherwise a fresh symbol rho with
    rho >= 0 and rho^den == s^num (s >= 0 is assumed and recorded)."""
    from .scalar import Sc, zterm, _is_conc
    q = Fraction(q)
    if q.denominator == 1:
        return s ** int(q)
    if s.is_concrete:
        v = Fraction(s.re)
        if v < 0:
            raise NotImplementedError('root of negative concrete number')
        r = _exact_root(v, q)
        if r is not None:
            return Sc(r)
        if _concrete_mode():
            # translation validation (shim with concrete values, real LAPACK): the double NumPy would compute
            return Sc(Fraction(float(v) ** float(q)))
    for (a, qq, res) in S.roots:
        if qq == q:
            e = a.eq_term(s)
            if e is True:
                return res
            if e is not False and s.is_concrete is False and a.is_concrete is False:
                # same function of equal argument: decide by solver
                sol = z3.Solver()
                sol.set('timeout', 5000)
                sol.add(*S.axioms)
                sol.add(z3.Not(e))
                if str(sol.check()) == 'unsat':
                    return res
    rho = z3.Real(fresh('rho'))
    res = Sc(rho)
    num, den = abs(q.numerator), q.denominator
    base = s if q > 0 else Sc(1) / s
    lhs = Sc(1)
    for _ in range(den):
        lhs = lhs * res
    rhs = Sc(1)
    for _ in range(num):
        rhs = rhs * base
    S.axioms.append(rho >= 0)
    S.axioms.append(zterm(lhs.re) == zterm(rhs.re))
    if not s.is_concrete:
        S.axioms.append(zterm(s.re) >= 0)
    S.roots.append((s, q, res))
    S.notes.append('algebraic symbol %s = (.)^(%s)' % (rho, q))
    return res


def _exact_root(v, q):
    """v ** q as an exact Fraction if rational, else None"""
    num, den = q.numerator, q.denominator

    def iroot(n, k):
        if n < 0:
            return None
        lo, hi = 0, 1
        while hi ** k < n:
            hi *= 2
        while lo < hi:
            mid = (lo + hi) // 2
            if mid ** k < n:
                lo = mid + 1
            else:
                hi = mid
        return lo if lo ** k == n else None
    a = iroot(v.numerator, den)
    b = iroot(v.denominator, den)
    if a is None or b is None:
        return None
    r = Fraction(a, b)
    return r ** num if num >= 0 else Fraction(1) / (r ** (-num))


def _concrete_mode():
    try:
        from . import lapack
        return isinstance(lapack.policy(), lapack.ConcretePolicy)
    except Exception:
        return False


def transcendental(name, s):
    """exp / sin / cos as uninterpreted real functions (complex exp split)."""
    from .scalar import Sc, zterm
    if s.is_concrete and s.re == 0 and s.im == 0:
        return Sc({'exp': 1, 'sin': 0, 'cos': 1}[name])
    if s.is_concrete and _concrete_mode():
        import cmath
        z = getattr(cmath, name)(complex(float(Fraction(s.re)), float(Fraction(s.im)) if s.im != 0 else 0.0))
        return Sc(Fraction(z.real), Fraction(z.imag)) if abs(z.imag) > 0 else Sc(Fraction(z.real))

    def uf(n):
        if n not in S.trans:
            S.trans[n] = z3.Function(n, z3.RealSort(), z3.RealSort())
        return S.trans[n]
    if s.is_real:
        return Sc(uf(name)(zterm(s.re)))
    if name == 'exp':
        # exp(a+ib) = exp(a) (cos b + i sin b)
        mag = transcendental('exp', Sc(s.re))
        return mag * Sc(uf('cos')(zterm(s.im)), uf('sin')(zterm(s.im)))
    raise NotImplementedError('%s of complex Sc' % name)
