#!/bin/bash
# run every registered quick (or thorough) check sequentially and print the summary lines (development aid)
cd /verif
TIER=${1:-quick}
for f in harness/C[0-9][0-9].py; do p=$(basename $f .py); s=$(date +%s); timeout ${2:-1800} ./check $p $TIER > /tmp/all-$p.out 2>&1; rc=$?; e=$(( $(date +%s) - s )); echo "$p rc=$rc ${e}s $(tail -1 /tmp/all-$p.out | cut -c1-200)"; done
