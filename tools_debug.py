"""tools_debug.py <Cxx> <scenario> <grid index | json params> [tier] -- development aid: run ONE grid point symbolically in-process, print every obligation that
is not discharged, replay the first counterexample on the real code and print what the concrete mode saw.  VERIF_REPO selects the tree."""
import importlib, json, os, sys, warnings
VERIF = os.path.dirname(os.path.abspath(__file__))
sys.path.insert(0, VERIF)
warnings.simplefilter('ignore')
from symtt import loader, core, state, run

def main(a):
    prop, scen, which = a[0], a[1], a[2]
    tier = a[3] if len(a) > 3 else 'quick'
    R = loader.load(shimmed=True)
    importlib.import_module('harness.' + prop)
    sc = core.SCENARIOS[(prop, scen)]
    params = json.loads(which) if which.startswith('{') else sc.grid(tier)[int(which)]
    print('params', json.dumps(params))
    opts = {'timeout_ms': 60000, 'trace': False, 'tv': False, 'cvc5': 0, 'replay_random': 1, 'task_timeout': 900}
    res = run.run_task((prop, scen, params, tier, 0, opts))
    print('error', res.get('error'), 'exception', res.get('exception'))
    if res.get('traceback'):
        print(res['traceback'])
    for o in res['obligations']:
        if o['status'] not in ('unsat', 'held'):
            print('  ', o['status'], '|', o['label'][:150], '|', (o.get('detail') or '')[:100], '| group', o.get('group'))
    print('n obligations', len(res['obligations']), 'replay', json.dumps(res.get('replay'), indent=1)[:1500])
    bad = [o for o in res['obligations'] if o['status'] == 'sat' and o.get('model_inputs')]
    if bad:
        print('model inputs', json.dumps(bad[0]['model_inputs'])[:1500])
        path = run._replay_file(prop, scen, params, bad[0]['model_inputs'], bad[0]['label'], 0)
        r = run._run_replay(path)
        print('concrete obligations on the model inputs:')
        for o in r.get('obligations', []):
            print('   ', o['status'], '|', o['label'][:150], '|', (str(o.get('detail')) or '')[:80])
        print('exception', r.get('exception'), r.get('harness_error'), r.get('machinery_error'))
        os.remove(path)

if __name__ == '__main__':
    main(sys.argv[1:])
