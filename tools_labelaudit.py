"""tools_labelaudit.py [Cxx ...] -- development aid: which symbolic obligations could NOT be confirmed by a replay because the concrete mode of the
scenario has no obligation with the same base label or group?  (Such a counterexample would end as INCONCLUSIVE/exit 3 instead of VIOLATION.)
Uses .runlog/<Cxx>-quick.json of the last quick run for the symbolic labels and runs the concrete mode on up to 3 grid points per scenario."""
import json, os, re, subprocess, sys, glob
from concurrent.futures import ThreadPoolExecutor
VERIF = os.path.dirname(os.path.abspath(__file__))
PY = os.path.join(VERIF, '.venv', 'bin', 'python')

def base(l):
    return re.sub(r' \[(T0 == spec|cut \d+/\d+: A == B)\]$', '', l)

def norm(l):
    # labels often carry path/rank info: compare literally (that is what the replay does)
    return base(l)

def conc(prop, scen, params):
    spec = {'property': prop, 'scenario': scen, 'params': params, 'inputs': {}, 'seed': 1}
    path = '/tmp/labelaudit-%s-%s-%d.json' % (prop, scen, abs(hash(json.dumps(params, sort_keys=True))) % 10**8)
    json.dump(spec, open(path, 'w'))
    p = subprocess.run([PY, '-m', 'symtt.replay', path], cwd=VERIF, capture_output=True, text=True, timeout=600)
    os.remove(path)
    for line in p.stdout.splitlines():
        if line.startswith('REPLAY-RESULT '):
            return json.loads(line[14:])
    return {'machinery_error': (p.stdout + p.stderr)[-500:]}

def main(props):
    jobs = []
    for prop in props:
        f = os.path.join(VERIF, '.runlog', '%s-quick.json' % prop)
        res = json.load(open(f))
        res = res if isinstance(res, list) else res.get('results', res)
        by = {}
        for r in res:
            by.setdefault(r['scenario'], []).append(r)
        for scen, rs in by.items():
            pick = [rs[0], rs[len(rs) // 2], rs[-1]] if len(rs) >= 3 else rs
            seen = set()
            for r in pick:
                k = json.dumps(r['params'], sort_keys=True)
                if k in seen:
                    continue
                seen.add(k)
                jobs.append((prop, scen, r))
    def one(j):
        prop, scen, r = j
        c = conc(prop, scen, r['params'])
        return j, c
    with ThreadPoolExecutor(8) as ex:
        out = list(ex.map(one, jobs))
    agg = {}
    for (prop, scen, r), c in out:
        if 'machinery_error' in c or c.get('harness_error'):
            print('%s %s %s: concrete run: %s' % (prop, scen, json.dumps(r['params'])[:80], (c.get('machinery_error') or c.get('harness_error'))[-200:]))
            continue
        if c.get('exception'):
            print('%s %s %s: concrete run raised %s' % (prop, scen, json.dumps(r['params'])[:80], c['exception'][:200]))
        have = set(norm(o['label']) for o in c['obligations'])
        miss = []
        for o in r['obligations']:
            if norm(o['label']) in have or (o.get('group') and o['group'] in have):
                continue
            miss.append(re.sub(r'\d+', '#', norm(o['label'])))
        a = agg.setdefault((prop, scen), {'n': 0, 'miss': {}})
        a['n'] += len(r['obligations'])
        for m in miss:
            a['miss'][m] = a['miss'].get(m, 0) + 1
    for (prop, scen), a in sorted(agg.items()):
        nm = sum(a['miss'].values())
        print('%s %-24s %4d symbolic obligations, %4d without a concrete counterpart' % (prop, scen, a['n'], nm))
        for m, k in sorted(a['miss'].items(), key=lambda x: -x[1])[:12]:
            print('       %3d x %s' % (k, m[:170]))

if __name__ == '__main__':
    main(sys.argv[1:] or ['C%02d' % i for i in range(1, 21)])
