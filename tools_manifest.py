#!/usr/bin/env python3
"""Regenerate MANIFEST.json from the harness META blocks (run from /verif)."""
import importlib
import json
import os
import sys

sys.path.insert(0, os.path.dirname(os.path.abspath(__file__)))
PROPS = ['C%02d' % i for i in range(1, 21)]
NA_REASON = {}
checks = []
na = []
for p in PROPS:
    f = os.path.join(os.path.dirname(os.path.abspath(__file__)), 'harness', p + '.py')
    if not os.path.exists(f):
        na.append({'property_id': p, 'reason': NA_REASON.get(p, 'harness not built yet (design in DESIGN.md section 2); no claim is made')})
        continue
    src = open(f).read()
    g = {}
    # META is a literal dict at module level
    import ast
    tree = ast.parse(src)
    meta = {}
    for node in tree.body:
        if isinstance(node, ast.Assign) and getattr(node.targets[0], 'id', None) == 'META':
            meta = ast.literal_eval(node.value)
    checks.append({
        'property_id': p,
        'quick_cmd': './check %s quick' % p,
        'thorough_cmd': './check %s thorough' % p,
        'evidence_file': '/verif/evidence/%s.json' % p,
        'replay_cmd_template': './check %s --replay {path}' % p,
        'engine': 'symtt',
        'level_claimed': {
            'category': 'other',
            'text': 'Bounded symbolic verification: ' + meta.get('explanation', '') + ' Holds for ALL entry values at every shape/option '
                    'point of the stated grid (solver verdict, not sampling); says nothing outside the grid. Bounds (quick): ' +
                    meta.get('bounds', {}).get('quick', '') + '. Bounds (thorough): ' + meta.get('bounds', {}).get('thorough', ''),
            'design_ref': 'DESIGN.md section 2, ' + p,
        },
        'level_note': 'Trusted base: exact real arithmetic instead of floating point; LAPACK/ARPACK/expm contract stubs (DESIGN 1.4); '
                      'z3 (sampled cvc5 cross-check); NumPy index mechanics. Outside the claim: ' + '; '.join(meta.get('outside', [])) +
                      ('. Assumed: ' + '; '.join(meta.get('assumptions', [])) if meta.get('assumptions') else ''),
        'technique': 'solver-based: symbolic execution of the real Python functions over z3 Real terms at fixed shapes, '
                     'cut-point chain for LAPACK factorisations, z3 decides each obligation (unsat = holds for all values), '
                     'sat models replayed on the unmodified code',
    })
man = {
    'version': 1,
    'setup_cmd': './setup.sh',
    'hooks': {
        'guard': 'SCIKIT_TT_VERIF',
        'enable': 'none needed: the environment (numpy, LAPACK, expm, clock) is injected by rebinding module globals from /verif at import time; no source hooks are committed',
        'baseline_off_cmd': 'cd /repo && /venv/bin/python -m pytest -ra -q -p no:cacheprovider --timeout=900 --continue-on-collection-errors',
        'source_commits': [],
        'add_only': True,
    },
    'engines': [{'name': 'symtt', 'path': '/verif/symtt', 'serves_properties': [c['property_id'] for c in checks],
                 'kind_free_text': 'symbolic executor for NumPy/SciPy code over exact reals (z3), with LAPACK contract stubs, forking path explorer, replay'}],
    'checks': checks,
    'not_applicable': na,
    'notes': 'Exit codes of every check: 0 held, 1 reproduced violation (VIOLATION line), 3 harness error or inconclusive obligation. '
             'Genuine defects repaired in /repo are listed as fixed in known_findings.json.',
}
json.dump(man, open(os.path.join(os.path.dirname(os.path.abspath(__file__)), 'MANIFEST.json'), 'w'), indent=1)
print('MANIFEST: %d checks, %d not_applicable' % (len(checks), len(na)))
