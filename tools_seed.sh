#!/bin/bash
# tools_seed.sh <seed-id> <property> <worktree> "<needs>"  -- confirm and archive a seeded change
# (development aid; not part of any registered check)
set -u
ID=$1; PROP=$2; WT=$3; NEEDS=$4
DST=/verif/seeded/$ID
mkdir -p $DST
cd $WT
git diff -- scikit_tt > $DST/patch.diff
cp demo_seeded.py $DST/demo_seeded.py
export OMP_NUM_THREADS=1 OPENBLAS_NUM_THREADS=1
/venv/bin/python demo_seeded.py > $DST/demo_with.log 2>&1; W=$?
git apply -R $DST/patch.diff     # (not git stash: the stash is shared by all worktrees of a repository)
/venv/bin/python demo_seeded.py > $DST/demo_without.log 2>&1; WO=$?
git apply $DST/patch.diff
/venv/bin/python -m pytest -ra -q -p no:cacheprovider --timeout=900 --continue-on-collection-errors > $DST/tests_with.log 2>&1
TS=$(tail -1 $DST/tests_with.log)
FAILED=$(grep -E "^(FAILED|ERROR)" $DST/tests_with.log | grep -v -E "ala10_rank_test|ntl9_rank_test|test_tdmd_exact|test_tdmd_standard" | wc -l)
python3 - <<PY
import json
json.dump({"id": "$ID", "property": "$PROP", "needs": """$NEEDS""",
 "demo_exit_with_change": $W, "demo_exit_without_change": $WO,
 "test_suite_with_change": """$TS""", "unexpected_test_failures": $FAILED,
 "ran": ["cd <worktree> && /venv/bin/python demo_seeded.py (with change, then after git stash)",
         "cd <worktree> && /venv/bin/python -m pytest -ra -q -p no:cacheprovider --timeout=900 --continue-on-collection-errors"]},
 open("$DST/meta.json", "w"), indent=1)
PY
rm -f $DST/tests_with.log.tmp
echo "seed $ID: demo with=$W without=$WO tests: $TS unexpected=$FAILED"
