#!/bin/bash
# tools_seedall.sh <glob under seeded/, e.g. 'R3-*'> [tier]  -- re-run the check of every archived seeded change against a scratch worktree with the patch
# applied (never /repo itself); writes seeded/<id>/check_result.txt.  Development aid.
cd /verif
PAT=${1:-'*'}; TIER=${2:-quick}
for d in seeded/$PAT; do
  id=$(basename $d); prop=$(python3 -c "import json;print(json.load(open('$d/meta.json'))['property'])")
  wt=/tmp/seedall-$id
  git -C /repo worktree add -q --detach $wt HEAD || continue
  if git -C $wt apply /verif/$d/patch.diff 2>/dev/null; then
    VERIF_NOEVIDENCE=1 VERIF_REPO=$wt timeout 3000 ./check $prop $TIER > /tmp/seedall-$id.log 2>&1; rc=$?
    git checkout -- evidence/$prop.json 2>/dev/null
    line="$id $prop rc=$rc violations=$(grep -c '^VIOLATION' /tmp/seedall-$id.log) inconclusive=$(grep -c '^INCONCLUSIVE' /tmp/seedall-$id.log) harness=$(grep -c '^HARNESS-ERROR' /tmp/seedall-$id.log) scenarios=$(grep -A1 '^VIOLATION' /tmp/seedall-$id.log | grep -o 'scenario=[a-z_0-9A-Z]*' | sort -u | tr '\n' ' ')"
  else
    line="$id $prop patch does not apply to HEAD"
  fi
  echo "$line" | tee $d/check_result.txt
  git -C /repo worktree remove --force $wt
  rm -f /verif/replays/$prop-*.json
done
