#!/bin/bash
# tools_seedall_par.sh [tier] -- every archived seeded change against its check, four at a time, each on its own scratch worktree and its own copy of /verif's
# evidence directory (VERIF_EVID is not supported, so the evidence file of the property is restored afterwards).  Development aid.
cd /verif
TIER=${1:-quick}
ls -d seeded/*/ | xargs -n1 basename | xargs -P 4 -I{} bash -c '
  id={}; d=seeded/$id
  prop=$(python3 -c "import json;print(json.load(open(\"$d/meta.json\"))[\"property\"])" 2>/dev/null) || exit 0
  wt=/tmp/seedall-$id
  git -C /repo worktree add -q --detach $wt HEAD 2>/dev/null || exit 0
  if git -C $wt apply /verif/$d/patch.diff 2>/dev/null; then
    VERIF_REPO=$wt VERIF_NOEVIDENCE=1 timeout 3000 ./check $prop '"$TIER"' > /tmp/seedall-$id.log 2>&1; rc=$?
    line="$id $prop rc=$rc violations=$(grep -c "^VIOLATION" /tmp/seedall-$id.log) inconclusive=$(grep -c "^INCONCLUSIVE" /tmp/seedall-$id.log) harness=$(grep -c "^HARNESS-ERROR" /tmp/seedall-$id.log) scenarios=$(grep -A1 "^VIOLATION" /tmp/seedall-$id.log | grep -o "scenario=[a-z_0-9A-Z]*" | sort -u | tr "\n" " ")"
  else
    line="$id $prop patch does not apply to HEAD"
  fi
  echo "$line" | tee $d/check_result.txt
  git -C /repo worktree remove --force $wt
'
