#!/bin/bash
# tools_seedcheck.sh <patch.diff> <property> [tier]  -- apply a seeded change to /repo, run the check, undo (development aid)
P=$1; PROP=$2; TIER=${3:-quick}
cd /verif
git -C /repo diff --quiet || { echo "/repo not clean"; exit 2; }
git -C /repo apply "$P" || { echo "patch does not apply"; exit 2; }
timeout 1800 ./check $PROP $TIER > /tmp/seedcheck-$PROP.out 2>&1; RC=$?
git -C /repo checkout -- .
git -C /verif checkout -- evidence/$PROP.json 2>/dev/null   # evidence written while a seeded change was applied is not evidence
echo "exit=$RC violations=$(grep -c '^VIOLATION' /tmp/seedcheck-$PROP.out) inconclusive=$(grep -c '^INCONCLUSIVE' /tmp/seedcheck-$PROP.out) harness=$(grep -c '^HARNESS-ERROR' /tmp/seedcheck-$PROP.out)"
grep -A1 '^VIOLATION' /tmp/seedcheck-$PROP.out | head -4 | cut -c1-350
tail -1 /tmp/seedcheck-$PROP.out | cut -c1-300
rm -f /verif/replays/$PROP-*.json
