#!/bin/bash
# tools_seedcheck_wt.sh <worktree-with-the-change-applied> <Cxx> [tier]  -- run a check against a scratch worktree instead of /repo
# (used while something else is reading /repo); evidence written by this run is discarded.
W=$1; P=$2; T=${3:-quick}
cd /verif
VERIF_NOEVIDENCE=1 VERIF_REPO=$W ./check $P $T > /tmp/seedwt-$P-$(basename $W).log 2>&1; rc=$?
git checkout -- evidence/$P.json 2>/dev/null
echo "seedcheck $W $P rc=$rc $(grep -c '^VIOLATION' /tmp/seedwt-$P-$(basename $W).log) violations; $(tail -1 /tmp/seedwt-$P-$(basename $W).log)"
