#!/bin/bash
# tools_seedpipe.sh <seed-id> <Cxx> <worktree> "<needs>" -- archive + confirm a seeded change, then run the quick check against the worktree (development aid)
cd /verif
./tools_seed.sh "$1" "$2" "$3" "$4" > /tmp/seedpipe-$1.log 2>&1
./tools_seedcheck_wt.sh "$3" "$2" >> /tmp/seedpipe-$1.log 2>&1
tail -2 /tmp/seedpipe-$1.log
